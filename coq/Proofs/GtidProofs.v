From Coq Require Import ZArith NArith Bool List Lia.
From Mysync Require Import Gtid.Interval Gtid.GtidSet Proofs.IntervalProofs.
Import ListNotations.
Open Scope Z_scope.

Definition subset (a b : gtidset) : Prop := forall u t g, gmem a u t g = true -> gmem b u t g = true.
Definition same (a b : gtidset) : Prop := forall u t g, gmem a u t g = gmem b u t g.

(* ----------------------------------------------------------------- lookup *)
Section Lookup.
Context {V : Type}.
Lemma lookup_In_some k (v : V) m : lookup k m = Some v -> In (k, v) m.
Proof.
  induction m as [|[k' v'] r IH]; cbn; [discriminate|].
  destruct (N.eqb_spec k k'); [intros E; inversion E; subst; left; reflexivity|auto].
Qed.
Lemma lookup_none k (m : list (N * V)) : lookup k m = None <-> ~ In k (map fst m).
Proof.
  induction m as [|[k' v'] r IH]; cbn; [tauto|].
  destruct (N.eqb_spec k k'); [split; [discriminate|intros H; exfalso; apply H; left; congruence]|].
  rewrite IH. split; [intros H [E|E]; [congruence|auto]|tauto].
Qed.
Lemma In_lookup k (v : V) m : NoDup (map fst m) -> In (k, v) m -> lookup k m = Some v.
Proof.
  induction m as [|[k' v'] r IH]; cbn; intros Hnd Hi; [destruct Hi|].
  inversion Hnd as [|? ? Hn Hnd']; subst.
  destruct Hi as [E|Hi].
  - inversion E; subst. rewrite N.eqb_refl. reflexivity.
  - destruct (N.eqb_spec k k'); [subst; exfalso; apply Hn; apply (in_map fst) in Hi; exact Hi|auto].
Qed.
Lemma lookup_some_key k (v : V) m : lookup k m = Some v -> In k (map fst m).
Proof. intros H. apply lookup_In_some in H. apply (in_map fst) in H. exact H. Qed.
End Lookup.

Lemma filter_map_cons {V W} (f : N -> V -> option W) k v r :
  filter_map_vals f ((k, v) :: r) = match f k v with None => filter_map_vals f r | Some w => (k, w) :: filter_map_vals f r end.
Proof. unfold filter_map_vals. cbn. destruct (f k v); reflexivity. Qed.

Lemma lookup_filter_map {V W} (f : N -> V -> option W) m k : NoDup (map fst m) ->
  lookup k (filter_map_vals f m) = match lookup k m with None => None | Some v => f k v end.
Proof.
  induction m as [|[k' v'] r IH]; intros Hnd; [reflexivity|].
  cbn [map fst] in Hnd. inversion Hnd as [|? ? Hn Hnd']; subst.
  rewrite filter_map_cons. cbn [lookup].
  destruct (N.eqb_spec k k') as [->|Hne].
  - destruct (f k' v') as [w|] eqn:E.
    + cbn [lookup]. rewrite N.eqb_refl. reflexivity.
    + rewrite IH by assumption. destruct (lookup k' r) eqn:El; [|reflexivity].
      exfalso. apply Hn. eapply lookup_some_key; eauto.
  - destruct (f k' v') as [w|] eqn:E.
    + cbn [lookup]. destruct (N.eqb_spec k k'); [congruence|]. auto.
    + auto.
Qed.

Lemma filter_map_keys_incl {V W} (f : N -> V -> option W) m : incl (map fst (filter_map_vals f m)) (map fst m).
Proof.
  induction m as [|[k v] r IH]; [intros x []|].
  rewrite filter_map_cons. destruct (f k v); cbn [map fst]; intros x Hx.
  - destruct Hx as [<-|Hx]; [left; reflexivity|right; apply IH; exact Hx].
  - right. apply IH. exact Hx.
Qed.
Lemma filter_map_nodup {V W} (f : N -> V -> option W) m : NoDup (map fst m) -> NoDup (map fst (filter_map_vals f m)).
Proof.
  induction m as [|[k v] r IH]; intros Hnd; [constructor|].
  cbn [map fst] in Hnd. inversion Hnd as [|? ? Hn Hnd']; subst.
  rewrite filter_map_cons. destruct (f k v); cbn [map fst]; [constructor; [intros Hi; apply Hn; eapply filter_map_keys_incl; eauto|auto]|auto].
Qed.
Lemma filter_map_In {V W} (f : N -> V -> option W) m k w :
  In (k, w) (filter_map_vals f m) -> exists v, In (k, v) m /\ f k v = Some w.
Proof.
  induction m as [|[k' v'] r IH]; [intros []|].
  rewrite filter_map_cons. destruct (f k' v') eqn:E.
  - intros [Hi|Hi].
    + inversion Hi; subst. exists v'. split; [left; reflexivity|exact E].
    + destruct (IH Hi) as (v & H1 & H2). exists v. split; [right; exact H1|exact H2].
  - intros Hi. destruct (IH Hi) as (v & H1 & H2). exists v. split; [right; exact H1|exact H2].
Qed.

(* ------------------------------------------------------------ gmem basics *)
Lemma gmem_true s u t g : gmem s u t g = true <->
  exists tm sl, lookup u s = Some tm /\ lookup t tm = Some sl /\ mem sl g = true.
Proof.
  unfold gmem. split.
  - destruct (lookup u s) as [tm|]; [|discriminate]. destruct (lookup t tm) as [sl|] eqn:E; [|discriminate]. intros H. exists tm, sl. auto.
  - intros (tm & sl & -> & -> & H). exact H.
Qed.

Lemma wf_entry s u tm : wf s -> lookup u s = Some tm -> wf_tagmap tm.
Proof. intros [_ H] Hl. eapply H. eapply lookup_In_some; eauto. Qed.
Lemma wf_slice tm t sl : wf_tagmap tm -> lookup t tm = Some sl -> sl <> [] /\ normalized sl.
Proof. intros (_ & _ & H) Hl. eapply H. eapply lookup_In_some; eauto. Qed.

(* every uuid / tag present in a well-formed set has a transaction *)
Lemma wf_tag_witness s u tm t sl : wf s -> lookup u s = Some tm -> lookup t tm = Some sl ->
  exists g, gmem s u t g = true.
Proof.
  intros Hw H1 H2. destruct (wf_slice tm t sl (wf_entry _ _ _ Hw H1) H2) as [Hne Hn].
  destruct (normalized_mem_witness sl Hn Hne) as [g Hg]. exists g. apply gmem_true. eauto.
Qed.
Lemma wf_uuid_witness s u tm : wf s -> lookup u s = Some tm -> exists t g, gmem s u t g = true.
Proof.
  intros Hw H1. pose proof (wf_entry _ _ _ Hw H1) as (Hne & Hnd & Hall).
  destruct tm as [|[t sl] r]; [congruence|].
  assert (lookup t ((t, sl) :: r) = Some sl) as H2 by (cbn; rewrite N.eqb_refl; reflexivity).
  destruct (wf_tag_witness s u _ t sl Hw H1 H2) as [g Hg]. eauto.
Qed.

(* ---------------------------------------------------------------- Contain *)
Theorem set_contain_spec s o : wf s -> wf o -> (set_contain s o = true <-> subset o s).
Proof.
  intros Hs Ho. unfold set_contain. rewrite forallb_forall. split.
  - intros H u t g Hg. apply gmem_true in Hg. destruct Hg as (otm & osl & L1 & L2 & Hm).
    specialize (H (u, otm) (lookup_In_some _ _ _ L1)). cbn in H.
    destruct (lookup u s) as [stm|] eqn:Ls; [|discriminate].
    unfold tagmap_contain in H. rewrite forallb_forall in H.
    specialize (H (t, osl) (lookup_In_some _ _ _ L2)). cbn in H.
    destruct (lookup t stm) as [ssl|] eqn:Lt; [|discriminate].
    apply gmem_true. exists stm, ssl. split; [exact Ls|split; [exact Lt|]].
    destruct (wf_slice _ _ _ (wf_entry _ _ _ Hs Ls) Lt) as [_ Hn].
    destruct (wf_slice _ _ _ (wf_entry _ _ _ Ho L1) L2) as [_ Hno].
    eapply slice_contain_spec; eauto. apply normalized_nonempty. exact Hno.
  - intros Hsub [u otm] Hi.
    assert (L1 : lookup u o = Some otm) by (apply In_lookup; [apply Ho|exact Hi]).
    destruct (wf_uuid_witness o u otm Ho L1) as (t0 & g0 & Hg0).
    pose proof (Hsub _ _ _ Hg0) as Hs0. apply gmem_true in Hs0. destruct Hs0 as (stm & ssl0 & Ls & _ & _).
    rewrite Ls. unfold tagmap_contain. rewrite forallb_forall. intros [t osl] Hit.
    pose proof (wf_entry _ _ _ Ho L1) as Hwt.
    assert (L2 : lookup t otm = Some osl) by (apply In_lookup; [apply Hwt|exact Hit]).
    destruct (wf_tag_witness o u otm t osl Ho L1 L2) as [g1 Hg1].
    pose proof (Hsub _ _ _ Hg1) as Hs1. apply gmem_true in Hs1. destruct Hs1 as (stm' & ssl & Ls' & Lt & _).
    rewrite Ls in Ls'. inversion Ls'; subst stm'. rewrite Lt.
    destruct (wf_slice _ _ _ (wf_entry _ _ _ Hs Ls) Lt) as [_ Hn].
    destruct (wf_slice _ _ _ Hwt L2) as [_ Hno].
    apply slice_contain_spec; [exact Hn|apply normalized_nonempty; exact Hno|].
    intros g Hg.
    assert (gmem o u t g = true) as Ho' by (apply gmem_true; eauto).
    apply Hsub in Ho'. unfold gmem in Ho'. rewrite Ls, Lt in Ho'. exact Ho'.
Qed.

(* ------------------------------------------------------------------ Equal *)
Lemma keys_same_length {V W} (m : list (N * V)) (m' : list (N * W)) :
  NoDup (map fst m) -> NoDup (map fst m') -> length m = length m' ->
  incl (map fst m) (map fst m') -> incl (map fst m') (map fst m).
Proof.
  intros H1 H2 Hl Hi. apply NoDup_length_incl; auto. rewrite !map_length. lia.
Qed.

Theorem set_equal_sound s o : wf s -> wf o -> set_equal s o = true -> same s o.
Proof.
  intros Hs Ho H. unfold set_equal in H. apply andb_true_iff in H. destruct H as [Hlen H].
  apply Nat.eqb_eq in Hlen. rewrite forallb_forall in H.
  (* entry-wise: every (u, sm) of s has a twin in o with the same slices *)
  assert (Hfwd : forall u sm, lookup u s = Some sm -> exists om, lookup u o = Some om /\ length sm = length om /\
                   forall t i, lookup t sm = Some i -> lookup t om = Some i).
  { intros u sm Ls. specialize (H (u, sm) (lookup_In_some _ _ _ Ls)). cbn in H.
    destruct (lookup u o) as [om|] eqn:Lo; [|discriminate]. exists om. split; [reflexivity|].
    apply andb_true_iff in H. destruct H as [Hl2 H]. apply Nat.eqb_eq in Hl2. split; [exact Hl2|].
    rewrite forallb_forall in H. intros t i Lt. specialize (H (t, i) (lookup_In_some _ _ _ Lt)). cbn in H.
    apply slice_equal_eq in H. unfold lookup_or_nil in H.
    destruct (wf_slice _ _ _ (wf_entry _ _ _ Hs Ls) Lt) as [Hne _].
    destruct (lookup t om); [congruence|]. congruence. }
  assert (Hkeys : incl (map fst o) (map fst s)).
  { apply keys_same_length; [apply Hs|apply Ho|exact Hlen|].
    intros u Hu. apply in_map_iff in Hu. destruct Hu as ([u' sm] & <- & Hi). cbn.
    assert (lookup u' s = Some sm) as Ls by (apply In_lookup; [apply Hs|exact Hi]).
    destruct (Hfwd _ _ Ls) as (om & Lo & _). eapply lookup_some_key; eauto. }
  intros u t g. unfold gmem.
  destruct (lookup u s) as [sm|] eqn:Ls.
  - destruct (Hfwd _ _ Ls) as (om & Lo & Hl2 & Hsl). rewrite Lo.
    destruct (lookup t sm) as [i|] eqn:Lt.
    + rewrite (Hsl _ _ Lt). reflexivity.
    + destruct (lookup t om) as [j|] eqn:Lt'; [|reflexivity]. exfalso.
      pose proof (wf_entry _ _ _ Hs Ls) as (_ & Nd1 & _). pose proof (wf_entry _ _ _ Ho Lo) as (_ & Nd2 & _).
      assert (incl (map fst om) (map fst sm)) as Hi.
      { apply keys_same_length; auto. intros t' Ht'. apply in_map_iff in Ht'. destruct Ht' as ([t'' i] & <- & Hi). cbn.
        assert (lookup t'' sm = Some i) as L by (apply In_lookup; auto). apply Hsl in L. eapply lookup_some_key; eauto. }
      apply lookup_none in Lt. apply Lt. apply Hi. eapply lookup_some_key; eauto.
  - destruct (lookup u o) as [om|] eqn:Lo; [|reflexivity]. exfalso.
    apply lookup_none in Ls. apply Ls. apply Hkeys. eapply lookup_some_key; eauto.
Qed.

Theorem behind_or_equal_spec slave master : wf slave -> wf master ->
  (behind_or_equal slave master = true <-> subset slave master).
Proof.
  intros Hs Hm. unfold behind_or_equal. rewrite orb_true_iff. split.
  - intros [H|H]; [apply set_contain_spec in H; auto|].
    apply set_equal_sound in H; auto. intros u t g Hg. rewrite H. exact Hg.
  - intros H. left. apply set_contain_spec; auto.
Qed.

Theorem slave_ahead_spec slave master : wf slave -> wf master ->
  (slave_ahead slave master = true <-> ~ subset slave master).
Proof.
  intros Hs Hm. unfold slave_ahead. rewrite negb_true_iff, <- not_true_iff_false, behind_or_equal_spec; tauto.
Qed.

(* ------------------------------------------------------------------ Minus *)
Lemma nonnil_some {A} (l l' : list A) : nonnil l = Some l' -> l' = l /\ l <> [].
Proof. destruct l; cbn; [discriminate|]. intros E; inversion E. split; [reflexivity|discriminate]. Qed.
Lemma nonnil_none {A} (l : list A) : nonnil l = None -> l = [].
Proof. destruct l; cbn; [reflexivity|discriminate]. Qed.

Lemma tag_diff_spec btm t asl g : normalized asl -> (forall bm, btm = Some bm -> wf_tagmap bm) ->
  normalized (tag_diff btm t asl) /\
  mem (tag_diff btm t asl) g = mem asl g && negb (match btm with None => false | Some bm => match lookup t bm with None => false | Some bsl => mem bsl g end end).
Proof.
  intros Ha Hb. unfold tag_diff. destruct btm as [bm|]; [|split; [exact Ha|rewrite andb_true_r; reflexivity]].
  destruct (lookup t bm) as [bsl|] eqn:L; [|split; [exact Ha|rewrite andb_true_r; reflexivity]].
  destruct (wf_slice _ _ _ (Hb bm eq_refl) L) as [_ Hn].
  split; [apply slice_minus_normalized; auto|apply slice_minus_mem; auto].
Qed.

Theorem set_minus_spec a b : wf a -> wf b ->
  wf (set_minus a b) /\ forall u t g, gmem (set_minus a b) u t g = gmem a u t g && negb (gmem b u t g).
Proof.
  intros Ha Hb. split.
  - split; [apply filter_map_nodup; apply Ha|].
    intros u d Hi. apply filter_map_In in Hi. destruct Hi as (atm & Hia & Hf).
    apply nonnil_some in Hf. destruct Hf as [-> Hne].
    destruct Ha as [Nda Hwa]. pose proof (Hwa _ _ Hia) as (_ & Ndt & Hsl).
    split; [exact Hne|]. split; [apply filter_map_nodup; exact Ndt|].
    intros t sl Hit. apply filter_map_In in Hit. destruct Hit as (asl & Hit & Hf).
    apply nonnil_some in Hf. destruct Hf as [-> Hne2]. split; [exact Hne2|].
    destruct (Hsl _ _ Hit) as [_ Hn].
    apply (tag_diff_spec (lookup u b) t asl 0 Hn). intros bm Lb. eapply wf_entry; eauto.
  - intros u t g. unfold gmem at 1. unfold set_minus. rewrite lookup_filter_map by apply Ha.
    unfold gmem at 1. destruct (lookup u a) as [atm|] eqn:La; [|reflexivity].
    pose proof (wf_entry _ _ _ Ha La) as Hwt. destruct Hwt as (Hne & Ndt & Hsl).
    assert (Hcore : match lookup t (tagmap_minus atm (lookup u b)) with None => false | Some sl => mem sl g end
                    = match lookup t atm with None => false | Some sl => mem sl g end && negb (gmem b u t g)).
    { unfold tagmap_minus. rewrite lookup_filter_map by exact Ndt.
      destruct (lookup t atm) as [asl|] eqn:Lt; [|reflexivity].
      destruct (Hsl _ _ (lookup_In_some _ _ _ Lt)) as [_ Hn].
      destruct (tag_diff_spec (lookup u b) t asl g Hn) as [_ Hm]; [intros bm Lb; eapply wf_entry; eauto|].
      unfold gmem. rewrite <- Hm.
      destruct (nonnil (tag_diff (lookup u b) t asl)) as [l|] eqn:En.
      - apply nonnil_some in En. destruct En as [-> _]. reflexivity.
      - apply nonnil_none in En. rewrite En. reflexivity. }
    destruct (nonnil (tagmap_minus atm (lookup u b))) as [d|] eqn:En.
    + apply nonnil_some in En. destruct En as [-> _]. exact Hcore.
    + apply nonnil_none in En. rewrite En in Hcore. cbn in Hcore. exact Hcore.
Qed.

Lemma wf_empty_iff s : wf s -> (is_empty s = true <-> forall u t g, gmem s u t g = false).
Proof.
  intros Hw. destruct s as [|[u tm] r]; cbn; split; try reflexivity; try discriminate.
  intros H. exfalso.
  assert (lookup u ((u, tm) :: r) = Some tm) as L by (cbn; rewrite N.eqb_refl; reflexivity).
  destruct (wf_uuid_witness _ u tm Hw L) as (t & g & Hg). rewrite H in Hg. discriminate.
Qed.

Lemma minus_empty_iff a b : wf a -> wf b -> (is_empty (set_minus a b) = true <-> subset a b).
Proof.
  intros Ha Hb. destruct (set_minus_spec a b Ha Hb) as [Hw Hm]. rewrite (wf_empty_iff _ Hw). split.
  - intros H u t g Hg. specialize (H u t g). rewrite Hm, Hg in H. cbn in H. apply negb_false_iff in H. exact H.
  - intros H u t g. rewrite Hm. destruct (gmem a u t g) eqn:E; [|reflexivity]. rewrite (H _ _ _ E). reflexivity.
Qed.

(* GTIDDiff: the two reported sets are exactly the two differences and the
   message kind is determined by which of them is empty *)
Theorem gtid_diff_spec replica source : wf replica -> wf source ->
  let '(k, ds, dr) := gtid_diff replica source in
  (forall u t g, gmem ds u t g = gmem source u t g && negb (gmem replica u t g)) /\
  (forall u t g, gmem dr u t g = gmem replica u t g && negb (gmem source u t g)) /\
  (k = DiffEqual <-> (subset source replica /\ subset replica source)) /\
  (k = DiffSourceAhead <-> (~ subset source replica /\ subset replica source)) /\
  (k = DiffReplicaAhead <-> (subset source replica /\ ~ subset replica source)) /\
  (k = DiffSplitBrain <-> (~ subset source replica /\ ~ subset replica source)).
Proof.
  intros Hr Hs. unfold gtid_diff.
  destruct (set_minus_spec source replica Hs Hr) as [_ M1].
  destruct (set_minus_spec replica source Hr Hs) as [_ M2].
  pose proof (minus_empty_iff source replica Hs Hr) as E1.
  pose proof (minus_empty_iff replica source Hr Hs) as E2.
  split; [exact M1|]. split; [exact M2|].
  assert (HA : if is_empty (set_minus source replica) then subset source replica else ~ subset source replica).
  { destruct (is_empty (set_minus source replica)); [apply E1; reflexivity|intros K; apply E1 in K; discriminate]. }
  assert (HB : if is_empty (set_minus replica source) then subset replica source else ~ subset replica source).
  { destruct (is_empty (set_minus replica source)); [apply E2; reflexivity|intros K; apply E2 in K; discriminate]. }
  destruct (is_empty (set_minus source replica)), (is_empty (set_minus replica source));
    (split; [|split; [|split]]); split; intros H; try discriminate; try reflexivity; try tauto.
Qed.

(* ------------------------------------------------------------ split brain *)
Theorem split_brained_subset slave master mu : wf slave -> wf master ->
  subset slave master -> split_brained slave master mu = false.
Proof.
  intros Hs Hm Hsub. apply not_true_iff_false. intros H. unfold split_brained in H.
  apply existsb_exists in H. destruct H as ([u stm] & Hi & H).
  assert (Ls : lookup u slave = Some stm) by (apply In_lookup; [apply Hs|exact Hi]).
  destruct (wf_uuid_witness _ _ _ Hs Ls) as (t0 & g0 & Hg0).
  pose proof (Hsub _ _ _ Hg0) as Hm0. apply gmem_true in Hm0. destruct Hm0 as (mtm & msl0 & Lm & _ & _).
  rewrite Lm in H. apply existsb_exists in H. destruct H as ([t ssl] & Hit & H).
  pose proof (wf_entry _ _ _ Hs Ls) as Hwt.
  assert (Lt : lookup t stm = Some ssl) by (apply In_lookup; [apply Hwt|exact Hit]).
  destruct (wf_tag_witness _ _ _ _ _ Hs Ls Lt) as [g1 Hg1].
  pose proof (Hsub _ _ _ Hg1) as Hm1. apply gmem_true in Hm1. destruct Hm1 as (mtm' & msl & Lm' & Lmt & _).
  rewrite Lm in Lm'. inversion Lm'; subst mtm'. rewrite Lmt in H.
  assert (slice_contain msl ssl = true) as Hc.
  { destruct (wf_slice _ _ _ (wf_entry _ _ _ Hm Lm) Lmt) as [_ Hn].
    destruct (wf_slice _ _ _ Hwt Lt) as [_ Hns].
    apply slice_contain_spec; [exact Hn|apply normalized_nonempty; exact Hns|].
    intros g Hg. assert (gmem slave u t g = true) as K by (apply gmem_true; eauto).
    apply Hsub in K. unfold gmem in K. rewrite Lm, Lmt in K. exact K. }
  rewrite Hc in H. discriminate.
Qed.

Theorem split_brained_foreign slave master mu u t g : wf slave -> wf master ->
  gmem slave u t g = true -> gmem master u t g = false -> u <> mu ->
  split_brained slave master mu = true.
Proof.
  intros Hs Hm Hg Hng Hne. apply gmem_true in Hg. destruct Hg as (stm & ssl & Ls & Lt & Hmem).
  unfold split_brained. apply existsb_exists. exists (u, stm). split; [eapply lookup_In_some; eauto|].
  destruct (lookup u master) as [mtm|] eqn:Lm; [|reflexivity].
  apply existsb_exists. exists (t, ssl). split; [eapply lookup_In_some; eauto|].
  destruct (lookup t mtm) as [msl|] eqn:Lmt; [|reflexivity].
  destruct (slice_contain msl ssl) eqn:Hc.
  - exfalso. destruct (wf_slice _ _ _ (wf_entry _ _ _ Hm Lm) Lmt) as [_ Hn].
    destruct (wf_slice _ _ _ (wf_entry _ _ _ Hs Ls) Lt) as [_ Hns].
    eapply slice_contain_spec in Hc; [| exact Hn | apply normalized_nonempty; exact Hns | exact Hmem].
    unfold gmem in Hng. rewrite Lm, Lmt in Hng. congruence.
  - apply negb_true_iff. apply N.eqb_neq. exact Hne.
Qed.

(* ------------------------------------------------------------ most recent *)
Definition all_wf (ps : list position) : Prop := forall p, In p ps -> wf (p_set p).
Definition contains_all (ps : list position) (p : position) : Prop :=
  forall n, In n ps -> subset (p_set n) (p_set p).

Lemma same_refl a : same a a. Proof. intros u t g; reflexivity. Qed.
Lemma same_sym a b : same a b -> same b a. Proof. intros H u t g; symmetry; apply H. Qed.
Lemma same_trans a b c : same a b -> same b c -> same a c.
Proof. intros H1 H2 u t g. rewrite H1. apply H2. Qed.
Lemma same_subset a b : same a b -> subset a b.
Proof. intros H u t g Hg. rewrite <- H. exact Hg. Qed.
Lemma subset_antisym a b : subset a b -> subset b a -> same a b.
Proof.
  intros H1 H2 u t g. destruct (gmem a u t g) eqn:E1, (gmem b u t g) eqn:E2; try reflexivity.
  - apply H1 in E1. congruence.
  - apply H2 in E2. congruence.
Qed.

Lemma recent_step_pick mx p : recent_step mx p = mx \/ recent_step mx p = p.
Proof.
  unfold recent_step. destruct (set_equal _ _); [destruct (_ <? _)|destruct (set_contain _ _)]; auto.
Qed.

Lemma fold_recent_in l : forall mx, In (fold_left recent_step l mx) (mx :: l).
Proof.
  induction l as [|p l IH]; intros mx; cbn [fold_left]; [left; reflexivity|].
  destruct (IH (recent_step mx p)) as [E|Hi].
  - rewrite <- E. destruct (recent_step_pick mx p) as [K|K]; rewrite K; [left; reflexivity|right; left; reflexivity].
  - right; right; exact Hi.
Qed.

Lemma fold_recent_top ps c : all_wf ps -> In c ps -> contains_all ps c ->
  forall l mx, In mx ps -> incl l ps -> (same (p_set mx) (p_set c) \/ In c l) ->
  same (p_set (fold_left recent_step l mx)) (p_set c).
Proof.
  intros Hwf Hc Hall. induction l as [|p l IH]; intros mx Hmx Hl Hgood; cbn [fold_left].
  - destruct Hgood as [H|[]]. exact H.
  - assert (Hp : In p ps) by (apply Hl; left; reflexivity).
    assert (Hl' : incl l ps) by (intros x Hx; apply Hl; right; exact Hx).
    assert (Hstep_in : In (recent_step mx p) ps) by (destruct (recent_step_pick mx p) as [K|K]; rewrite K; assumption).
    apply IH; auto.
    destruct Hgood as [Hg|[E|Hin]].
    + left. unfold recent_step.
      destruct (set_equal (p_set p) (p_set mx)) eqn:Eq.
      * apply set_equal_sound in Eq; auto.
        destruct (_ <? _); [eapply same_trans; eauto|exact Hg].
      * destruct (set_contain (p_set p) (p_set mx)) eqn:Ec; [|exact Hg].
        apply set_contain_spec in Ec; auto.
        apply subset_antisym; [apply Hall; exact Hp|].
        intros u t g K. apply Ec. rewrite Hg. exact K.
    + subst p. left. unfold recent_step.
      destruct (set_equal (p_set c) (p_set mx)) eqn:Eq.
      * apply set_equal_sound in Eq; auto. destruct (_ <? _); [apply same_refl|apply same_sym; exact Eq].
      * assert (set_contain (p_set c) (p_set mx) = true) as ->; [|apply same_refl].
        apply set_contain_spec; auto.
    + right. exact Hin.
Qed.

Theorem most_recent_found ps h st : all_wf ps -> most_recent ps = RecentFound h st ->
  exists p, In p ps /\ p_host p = h /\ p_set p = st /\ contains_all ps p.
Proof.
  intros Hwf H. destruct ps as [|p0 r]; [discriminate|]. cbn [most_recent] in H.
  set (mx := fold_left recent_step r p0) in *.
  destruct (detect_splitbrain (p0 :: r) mx) eqn:D; [discriminate|]. inversion H; subst.
  pose proof (fold_recent_in r p0) as Hin. fold mx in Hin.
  exists mx. split; [exact Hin|]. split; [reflexivity|]. split; [reflexivity|].
  intros n Hn. unfold detect_splitbrain in D.
  assert (set_contain (p_set mx) (p_set n) = true) as Hc.
  { destruct (set_contain (p_set mx) (p_set n)) eqn:E; [reflexivity|]. exfalso.
    apply not_true_iff_false in D. apply D. apply existsb_exists. exists n. rewrite E. auto. }
  apply set_contain_spec in Hc; auto.
Qed.

Theorem most_recent_splitbrain_iff ps : all_wf ps -> ps <> [] ->
  (most_recent ps = RecentSplitBrain <-> ~ exists p, In p ps /\ contains_all ps p).
Proof.
  intros Hwf Hne. split.
  - intros H (c & Hc & Hall). destruct ps as [|p0 r]; [congruence|]. cbn [most_recent] in H.
    set (mx := fold_left recent_step r p0) in *.
    destruct (detect_splitbrain (p0 :: r) mx) eqn:D; [|discriminate].
    assert (Hsame : same (p_set mx) (p_set c)).
    { apply (fold_recent_top (p0 :: r) c Hwf Hc Hall r p0); [left; reflexivity|intros x Hx; right; exact Hx|].
      destruct Hc as [E|Hc]; [left; subst; apply same_refl|right; exact Hc]. }
    pose proof (fold_recent_in r p0) as Hin. fold mx in Hin.
    unfold detect_splitbrain in D. apply existsb_exists in D. destruct D as (n & Hn & D).
    apply negb_true_iff in D.
    assert (set_contain (p_set mx) (p_set n) = true) as K; [|congruence].
    apply set_contain_spec; auto. intros u t g Hg. rewrite (Hsame u t g). exact (Hall n Hn u t g Hg).
  - intros Hno. destruct (most_recent ps) eqn:E; [reflexivity| |].
    + exfalso. apply Hno. destruct (most_recent_found ps h s Hwf E) as (p & H1 & _ & _ & H2). eauto.
    + destruct ps as [|q qs]; [congruence|]. cbn [most_recent] in E. destruct (detect_splitbrain (q :: qs) (fold_left recent_step qs q)); discriminate.
Qed.

(* wfb decides wf *)
Lemma nodupb_spec l : nodupb l = true -> NoDup l.
Proof.
  induction l as [|x r IH]; cbn; intros H; [constructor|].
  apply andb_true_iff in H. destruct H as [H1 H2]. constructor; [|auto].
  intros Hi. apply negb_true_iff in H1. apply not_true_iff_false in H1. apply H1.
  apply existsb_exists. exists x. split; [exact Hi|apply N.eqb_refl].
Qed.
Lemma wfb_sound s : wfb s = true -> wf s.
Proof.
  unfold wfb. intros H. apply andb_true_iff in H. destruct H as [H1 H2]. split; [apply nodupb_spec; exact H1|].
  rewrite forallb_forall in H2. intros u tm Hi. specialize (H2 _ Hi). cbn in H2.
  unfold wf_tagmapb in H2. apply andb_true_iff in H2. destruct H2 as [H2 H3]. apply andb_true_iff in H2. destruct H2 as [H2 H4].
  split; [destruct tm; [discriminate|discriminate]|]. split; [apply nodupb_spec; exact H4|].
  rewrite forallb_forall in H3. intros t sl Hit. specialize (H3 _ Hit). cbn in H3.
  apply andb_true_iff in H3. destruct H3 as [H5 H6]. split; [destruct sl; [discriminate|discriminate]|apply normalizedb_spec; exact H6].
Qed.
