(* "The recorded master is updated last": in every run of performSwitchover - hence on every crash
   prefix - the write of the master key is the LAST call of the procedure, it is issued at most once,
   and it names the host whose SET read_only=0 has just been answered OK in the same run. *)
From Coq Require Import ZArith NArith Bool List Lia.
From Mysync Require Import Gtid.Interval Gtid.GtidSet Pure.Quorum Pure.Desirable Base.Prog Base.ProgFacts Base.Hoare Base.Config
  Procs.NodeOps Procs.ActiveNodes Procs.Switchover Proofs.NodeOpsProofs Proofs.ActiveNodesProofs Proofs.SwitchoverProofs.
Import ListNotations.
Open Scope Z_scope.

(* monitor: (host made writable with an OK answer, master key written, that write answered OK) *)
Definition ml_state := (option host * bool * bool)%type.
Definition mw (st : ml_state) : option host := fst (fst st).
Definition mdone (st : ml_state) : bool := snd (fst st).
Definition mokd (st : ml_state) : bool := snd st.
Definition ml_step (st : ml_state) (c : call) (r : resp) : ml_state :=
  match c, r with
  | Sql h SSetWritable, ROk => (Some h, mdone st, mokd st)
  | DcsSet PMaster _, ROk => (mw st, true, true)
  | DcsSet PMaster _, _ => (mw st, true, false)
  | _, _ => st
  end.
Definition ml_ok (st : ml_state) (c : call) : Prop :=
  mdone st = false /\
  match c with
  | DcsSet PMaster v => exists h, v = VHost h /\ mw st = Some h
  | DcsSet PLastSwitch _ => False             (* the procedure itself never records a success *)
  | DcsCreate PSwitch _ => False              (* ... and never files a request *)
  | _ => True
  end.
(* the procedure reports success only when the master key was written and the write was answered OK *)
Definition ml_post {X} (st : ml_state) (a : sw_err * X) : Prop := fst a = SwOk -> mokd st = true.

Definition ml_calm (c : call) : bool :=
  match c with Sql _ SSetWritable | DcsSet PMaster _ | DcsSet PLastSwitch _ | DcsCreate PSwitch _ => false | _ => true end.

Lemma ml_calm_ok c st : ml_calm c = true -> mdone st = false -> ml_ok st c /\ neutral ml_state ml_step c.
Proof.
  intros H Hd. split.
  - split; [exact Hd|]. destruct c; try exact I; destruct p; try exact I; discriminate H.
  - intros st' r. destruct c; try reflexivity.
    + destruct s; try reflexivity. discriminate H.
    + destruct p; try reflexivity. discriminate H.
Qed.
Lemma calmb_ml c : calmb c = true -> ml_calm c = true.
Proof. destruct c; cbn; try reflexivity; intros H; try (destruct s; try reflexivity; discriminate H); destruct p; try reflexivity; discriminate H. Qed.
Lemma calm1b_ml c : calm1b c = true -> ml_calm c = true.
Proof. destruct c; cbn; try reflexivity; intros H; try (destruct s; try reflexivity; discriminate H); destruct p; try reflexivity; discriminate H. Qed.

Lemma ml_of_calm {A} (p : prog A) st : mdone st = false -> allcalls (fun _ c => calmb c = true) p ->
  allcalls (fun _ c => ml_ok st c /\ neutral ml_state ml_step c) p.
Proof. intros Hd H. eapply allcalls_impl; [|exact H]. intros s c K. apply ml_calm_ok; [apply calmb_ml; exact K|exact Hd]. Qed.
Lemma ml_of_calm1 {A} (p : prog A) st : mdone st = false -> allcalls (fun _ c => calm1b c = true) p ->
  allcalls (fun _ c => ml_ok st c /\ neutral ml_state ml_step c) p.
Proof. intros Hd H. eapply allcalls_impl; [|exact H]. intros s c K. apply ml_calm_ok; [apply calm1b_ml; exact K|exact Hd]. Qed.

Notation WP := (wp ml_state ml_step ml_ok).

(* bind whose first part does not move the monitor *)
Lemma wp_bind_neutral {A B} (p : prog A) (f : A -> prog B) st (Q : ml_state -> B -> Prop) :
  allcalls (fun _ c => ml_ok st c /\ neutral ml_state ml_step c) p -> (forall a, WP st (f a) Q) -> WP st (bind p f) Q.
Proof. intros Hp Hf. apply wp_bind. apply wp_neutral; assumption. Qed.

(* sq: peel one bind whose first part is calm; the monitor state does not move *)
Ltac sq := apply wp_bind_neutral; [apply ml_of_calm; [assumption|] | ].
Ltac ifc := match goal with |- wp _ _ _ _ (if ?c then _ else _) _ => destruct c end.
(* an error exit: the postcondition only speaks of success *)
Ltac err := (cbn [wp]; unfold ml_post; cbn [fst]; intros Hx; discriminate Hx).

Lemma ml_lock s st {B} (k : bool -> prog B) Q : mdone st = false -> (forall b, WP st (k b) Q) ->
  WP st (l <- lock_acquire s ;; k l) Q.
Proof.
  intros Hd Hk. unfold lock_acquire. cbn [bind wp]. split; [split; [exact Hd|exact I]|]. intros r.
  replace (ml_step st LockAcquire r) with st by (destruct r; reflexivity).
  destruct r; cbn [bind]; apply Hk.
Qed.

Lemma sw_promote_master_last cfg env mem active nm mrs st : mdone st = false ->
  WP st (sw_promote cfg env mem active nm mrs) ml_post.
Proof.
  intros Hd. pose proof CRb as CR. unfold sw_promote.
  apply ml_lock; [exact Hd|]. intros l2. destruct (negb l2); [err|].
  sq; [apply (c_cluster_state calmb); first [exact CR | intros; reflexivity]|]. intros cs2.
  destruct (state_ping cs2 nm) as [[|]|]; try err; [|exact I].
  ifc; [err|].
  sq; [apply ac_exec; reflexivity|]. intros [e5|]; [err|].
  cbn [wp]. split.
  { induction active as [|h r IH]; [exact I|]. cbn [map]. split; [|exact IH].
    apply ml_of_calm1; [exact Hd|].
    destruct (state_ping cs2 h) as [pok|]; [|exact I].
    destruct (N.eqb h nm || negb pok); [exact I|]. apply allcalls_bind; [apply pcm_calm1|]. intros; exact I. }
  intros errs3. ifc; [err|].
  sq; [apply ac_replica_status; reflexivity|]. intros os.
  sq.
  { destruct (snd os); [dapp d_set_recovery|].
    destruct (fst os) as [rs|]; [|dapp d_set_recovery].
    destruct (is_slave_permanently_lost rs mrs); [dapp d_set_recovery|exact I]. }
  intros [rec|]; [err|].
  sq; [apply ac_exec; reflexivity|]. intros [e6|]; [err|].
  apply wp_bind_neutral.
  { eapply allcalls_impl; [|apply (ac_exec (fun _ c => ml_calm c = true)); reflexivity].
    intros s c K. apply ml_calm_ok; [exact K|exact Hd]. }
  intros [e7|]; [err|].
  sq; [apply (c_cluster_state calmb); first [exact CR | intros; reflexivity]|]. intros cs3.
  sq; [dapp d_update_active|]. intros ua. cbn zeta.
  (* SET read_only = 0 on the new master: the monitor remembers it when it was answered OK *)
  unfold exec_ at 1. cbn [bind wp]. split; [split; [exact Hd|exact I]|]. intros r8.
  assert (G : forall st', mdone st' = false -> mw st' = Some nm -> WP st'
     (stop_timing 0;;; reenable_events nm;;; e9 <- dcs_set_ 1517 PMaster (VHost nm);;
      Ret (match e9 with Some _ => SwErr 1519 | None => SwOk end, snd ua)) ml_post).
  { intros st' Hd' Hw.
    apply wp_bind_neutral; [apply ml_of_calm; [exact Hd'|dapp d_stop_timing]|]. intros _.
    apply wp_bind_neutral; [apply ml_of_calm; [exact Hd'|apply (d_reenable calmb); first [exact calmb_stmt | exact calmb_dcs]]|]. intros _.
    unfold dcs_set_. cbn [bind wp]. split.
    - split; [exact Hd'|]. exists nm. split; [reflexivity|exact Hw].
    - intros r9. destruct r9; try destruct e; cbn [bind wp]; unfold ml_post; cbn [fst]; intros Hx; try discriminate Hx; reflexivity. }
  destruct r8; cbn [bind]; try err.
  apply G; [exact Hd|reflexivity].
Qed.

Lemma sw_after_positions_master_last cfg env sw mem active positions st : mdone st = false ->
  WP st (sw_after_positions cfg env sw mem active positions) ml_post.
Proof.
  intros Hd. pose proof CRb as CR. unfold sw_after_positions.
  destruct (most_recent positions) as [|mrh mrs|]; [| |exact I].
  { cbn [wp]. split; [split; [exact Hd|exact I]|]. intros; err. }
  destruct (sw_choose cfg sw positions mrh) as [nm|]; [|err].
  destruct (negb (mem_host nm (map fst (se_all_hosts env)))); [err|].
  apply wp_bind_neutral.
  { destruct (negb (N.eqb nm mrh)); [|exact I].
    apply allcalls_bind; [apply ml_of_calm; [exact Hd|apply ac_exec; reflexivity]|]. intros [e|]; [exact I|].
    apply allcalls_bind; [apply ml_of_calm1; [exact Hd|apply pcm_calm1]|]. intros; exact I. }
  intros pre. destruct (negb pre); [err|].
  sq; [apply (c_now calmb); first [exact CR | intros; reflexivity]|]. intros t0.
  sq; [apply (c_wait_catch_up calmb); first [exact CR | intros; reflexivity]|]. intros cu.
  destruct cu as [[|]|]; try err. apply sw_promote_master_last. exact Hd.
Qed.

Definition ml_init : ml_state := (None, false, false).

Theorem switchover_master_last_wp cfg env sw mem : WP ml_init (perform_switchover cfg env sw mem) ml_post.
Proof.
  pose proof CRb as CR. assert (Hd : mdone ml_init = false) by reflexivity.
  revert Hd. generalize ml_init as st. intros st Hd.
  unfold perform_switchover.
  ifc; [err|]. ifc; [err|].
  set (active := match sw_cause_ sw, sw_from sw with | CauseAuto, Some f => _ | _, _ => _ end).
  sq; [dapp d_opt_disable_all_k|]. intros [e0|]; [err|].
  apply wp_bind_neutral; [destruct (negb (is_failover sw)); [apply ml_of_calm; [exact Hd|dapp d_timing_now]|exact I]|]. intros _.
  cbn [wp]. split.
  { induction active as [|h r IH]; [exact I|]. cbn [map]. split; [|exact IH].
    apply ml_of_calm; [exact Hd|dapp d_freeze]. }
  intros errs. ifc.
  { sq; [dapp d_finish|]. intros e. destruct e; err. }
  destruct (state_ping (se_state env) (se_old_master env)); [|exact I].
  cbn [wp]. split.
  { induction (filter_out active [se_old_master env]) as [|h r IH]; [exact I|]. cbn [map]. split; [|exact IH].
    apply ml_of_calm; [exact Hd|dapp d_stop_io]. }
  intros errs2. ifc; [err|].
  apply ml_lock; [exact Hd|]. intros l1. destruct (negb l1); [err|].
  sq; [apply (c_node_positions calmb); first [exact CR | intros; reflexivity]|]. intros op.
  destruct op as [positions|]; [|err].
  ifc; [err|]. ifc; [err|].
  apply sw_after_positions_master_last. exact Hd.
Qed.

Theorem switchover_master_last cfg env sw mem : safe ml_state ml_step ml_ok ml_init (perform_switchover cfg env sw mem).
Proof. eapply wp_safe. apply switchover_master_last_wp. Qed.

(* what the monitor means on traces: after the write of the master key nothing follows, and the key is
   written with the host whose SET read_only=0 was answered OK before *)
Definition is_master_write (c : call) : bool := match c with DcsSet PMaster _ => true | _ => false end.

Lemma ml_trace_done st tr : mdone st = true -> trace_ok ml_state ml_step ml_ok st tr -> tr = [].
Proof. intros Hd H. destruct tr as [|e r]; [reflexivity|]. cbn in H. destruct H as [[K _] _]. rewrite Hd in K. discriminate K. Qed.

Lemma is_master_write_inv c : is_master_write c = true -> exists v, c = DcsSet PMaster v.
Proof. destruct c as [| |p v| | | | | | | | | | | | |]; try discriminate. destruct p; try discriminate. intros _. exists v. reflexivity. Qed.
Lemma ml_step_master st v r : mdone (ml_step st (DcsSet PMaster v) r) = true.
Proof. unfold ml_step. destruct r; reflexivity. Qed.
Lemma ml_step_same st c r : is_master_write c = false -> mdone (ml_step st c r) = mdone st /\ mokd (ml_step st c r) = mokd st.
Proof.
  intros H. unfold ml_step. destruct c as [h0 s0| |p v| | | | | | | | | | | | |]; try (split; reflexivity).
  - destruct s0; try (split; reflexivity). destruct r; split; reflexivity.
  - destruct p; try (split; reflexivity). discriminate H.
Qed.
Lemma ml_step_fst st c r h : is_master_write c = false -> mw (ml_step st c r) = Some h ->
  mw st = Some h \/ (c = Sql h SSetWritable /\ r = ROk).
Proof.
  intros H. unfold ml_step. destruct c as [h0 s0| |p v| | | | | | | | | | | | |]; try (intros W; left; exact W).
  - destruct s0; try (intros W; left; exact W). destruct r; try (intros W; left; exact W).
    cbn. intros W. inversion W; subst. right. split; reflexivity.
  - destruct p; try (intros W; left; exact W). discriminate H.
Qed.

Lemma ml_trace_shape : forall tr st, mdone st = false -> trace_ok ml_state ml_step ml_ok st tr ->
  forall t1 e t2, tr = t1 ++ e :: t2 -> is_master_write (ev_call e) = true ->
    t2 = [] /\ Forall (fun x => is_master_write (ev_call x) = false) t1 /\
    exists h, ev_call e = DcsSet PMaster (VHost h) /\
      (mw st = Some h \/ exists w, In w t1 /\ ev_call w = Sql h SSetWritable /\ ev_resp w = ROk).
Proof.
  induction tr as [|x r IH]; intros st Hd H t1 e t2 E Hm; [destruct t1; discriminate E|].
  cbn in H. destruct H as [Hok Hr].
  destruct t1 as [|y t1'].
  - cbn in E. inversion E; subst x r. clear E.
    destruct (is_master_write_inv _ Hm) as (v & Ec). rewrite Ec in Hok, Hr.
    destruct Hok as [_ (h & -> & Hw)].
    split.
    + apply (ml_trace_done (ml_step st (DcsSet PMaster (VHost h)) (ev_resp e))); [apply ml_step_master|]. exact Hr.
    + split; [constructor|]. exists h. split; [exact Ec|]. left. exact Hw.
  - cbn in E. inversion E; subst y r. clear E.
    assert (Nm : is_master_write (ev_call x) = false).
    { destruct (is_master_write (ev_call x)) eqn:Em; [|reflexivity]. exfalso.
      destruct (is_master_write_inv _ Em) as (v & Ec). rewrite Ec in Hr.
      assert (K := ml_trace_done (ml_step st (DcsSet PMaster v) (ev_resp x)) (t1' ++ e :: t2) (ml_step_master _ _ _) Hr).
      destruct t1'; discriminate K. }
    assert (Hd' : mdone (ml_step st (ev_call x) (ev_resp x)) = false).
    { destruct (ml_step_same st _ (ev_resp x) Nm) as [K _]. rewrite K. exact Hd. }
    destruct (IH _ Hd' Hr t1' e t2 eq_refl Hm) as (E2 & F & h & Ec & W).
    split; [exact E2|]. split; [constructor; assumption|]. exists h. split; [exact Ec|].
    destruct W as [W|(w & Hi & Hc & Hr')].
    + destruct (ml_step_fst _ _ _ _ Nm W) as [W'|[Ecx Erx]]; [left; exact W'|].
      right. exists x. split; [left; reflexivity|]. split; assumption.
    + right. exists w. split; [right; exact Hi|]. split; assumption.
Qed.

Theorem master_written_last cfg env sw mem tr o : runs (perform_switchover cfg env sw mem) tr o ->
  forall t1 e t2, tr = t1 ++ e :: t2 -> is_master_write (ev_call e) = true ->
    t2 = [] /\ Forall (fun x => is_master_write (ev_call x) = false) t1 /\
    exists h w, ev_call e = DcsSet PMaster (VHost h) /\ In w t1 /\ ev_call w = Sql h SSetWritable /\ ev_resp w = ROk.
Proof.
  intros R t1 e t2 E Hm.
  pose proof (safe_sound ml_state ml_step ml_ok _ _ (switchover_master_last cfg env sw mem) tr o R) as T.
  destruct (ml_trace_shape tr ml_init eq_refl T t1 e t2 E Hm) as (E2 & F & h & Ec & W).
  split; [exact E2|]. split; [exact F|]. destruct W as [W|(w & Hi & Hc & Hr)]; [discriminate W|].
  exists h, w. auto.
Qed.

(* on every crash prefix: a manager that died before the last call has not touched the master key *)
Theorem crash_prefix_keeps_master cfg env sw mem tr o k : runs (perform_switchover cfg env sw mem) tr o ->
  (k < length tr)%nat -> Forall (fun x => is_master_write (ev_call x) = false) (firstn k tr).
Proof.
  intros R Hk. apply Forall_forall. intros x Hx.
  destruct (is_master_write (ev_call x)) eqn:Em; [|reflexivity]. exfalso.
  destruct (in_split _ _ Hx) as (l1 & l2 & E).
  assert (Et : tr = l1 ++ x :: (l2 ++ skipn k tr)).
  { rewrite <- (firstn_skipn k tr) at 1. rewrite E. rewrite <- app_assoc. reflexivity. }
  destruct (master_written_last cfg env sw mem tr o R l1 x (l2 ++ skipn k tr) Et Em) as (E2 & _).
  apply app_eq_nil in E2. destruct E2 as [_ E2].
  assert (L : length (skipn k tr) = (length tr - k)%nat) by apply skipn_length.
  rewrite E2 in L. cbn in L. lia.
Qed.

(* success is reported only when the write of the master key was answered OK *)
Lemma mokd_fold : forall tr st, mokd (fold_steps ml_state ml_step st tr) = true ->
  mokd st = true \/ exists e, In e tr /\ is_master_write (ev_call e) = true /\ ev_resp e = ROk.
Proof.
  induction tr as [|x r IH]; intros st H; [left; exact H|].
  unfold fold_steps in H. cbn [fold_left] in H. fold (fold_steps ml_state ml_step (ml_step st (ev_call x) (ev_resp x)) r) in H.
  destruct (IH _ H) as [K|(e & Hi & Hm & Hr)].
  - destruct (is_master_write (ev_call x)) eqn:Em.
    + destruct (is_master_write_inv _ Em) as (v & Ec). rewrite Ec in K. unfold ml_step in K.
      destruct (ev_resp x) eqn:Er; try discriminate K. right. exists x. split; [left; reflexivity|]. split; assumption.
    + destruct (ml_step_same st _ (ev_resp x) Em) as [_ K2]. rewrite K2 in K. left. exact K.
  - right. exists e. split; [right; exact Hi|]. split; assumption.
Qed.

Theorem success_means_master_recorded cfg env sw mem tr mem' :
  runs (perform_switchover cfg env sw mem) tr (Done (SwOk, mem')) ->
  exists t1 e h w, tr = t1 ++ [e] /\ ev_call e = DcsSet PMaster (VHost h) /\ ev_resp e = ROk /\
                   In w t1 /\ ev_call w = Sql h SSetWritable /\ ev_resp w = ROk.
Proof.
  intros R.
  destruct (wp_sound ml_state ml_step ml_ok _ _ _ (switchover_master_last_wp cfg env sw mem) tr _ R) as [_ Q].
  unfold ml_post in Q. cbn [fst] in Q. specialize (Q eq_refl).
  destruct (mokd_fold tr ml_init Q) as [K|(e & Hi & Hm & Hr)]; [discriminate K|].
  destruct (in_split _ _ Hi) as (t1 & t2 & E).
  destruct (master_written_last cfg env sw mem tr _ R t1 e t2 E Hm) as (E2 & _ & h & w & Ec & Hw & Hwc & Hwr).
  subst t2. exists t1, e, h, w. repeat split; assumption.
Qed.

(* the procedure itself never writes the success record (last_switch) *)
Lemma ml_trace_no_success_record : forall tr st, trace_ok ml_state ml_step ml_ok st tr ->
  Forall (fun e => forall v, ev_call e <> DcsSet PLastSwitch v) tr.
Proof.
  induction tr as [|x r IH]; intros st H; [constructor|]. cbn in H. destruct H as [[_ Hok] Hr].
  constructor; [|exact (IH _ Hr)]. intros v E. rewrite E in Hok. exact Hok.
Qed.
Theorem switchover_never_records_success cfg env sw mem tr o : runs (perform_switchover cfg env sw mem) tr o ->
  Forall (fun e => forall v, ev_call e <> DcsSet PLastSwitch v) tr.
Proof.
  intros R. eapply ml_trace_no_success_record.
  exact (safe_sound ml_state ml_step ml_ok _ _ (switchover_master_last cfg env sw mem) tr o R).
Qed.

Lemma ml_trace_no_filing : forall tr st, trace_ok ml_state ml_step ml_ok st tr ->
  Forall (fun e => forall v, ev_call e <> DcsCreate PSwitch v) tr.
Proof.
  induction tr as [|x r IH]; intros st H; [constructor|]. cbn in H. destruct H as [[_ Hok] Hr].
  constructor; [|exact (IH _ Hr)]. intros v E. rewrite E in Hok. exact Hok.
Qed.
Theorem switchover_never_files cfg env sw mem tr o : runs (perform_switchover cfg env sw mem) tr o ->
  Forall (fun e => forall v, ev_call e <> DcsCreate PSwitch v) tr.
Proof.
  intros R. eapply ml_trace_no_filing.
  exact (safe_sound ml_state ml_step ml_ok _ _ (switchover_master_last cfg env sw mem) tr o R).
Qed.
