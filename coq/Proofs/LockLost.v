(* After a refused lock re-check the iteration issues nothing further: performSwitchover returns
   ErrManagerLockLost at once and (after the repair 6ae7e63) the request handling of the iteration
   ends there, leaving the request to the new manager. *)
From Coq Require Import ZArith NArith Bool List Lia.
From Mysync Require Import Gtid.Interval Gtid.GtidSet Pure.Quorum Pure.Desirable Base.Prog Base.ProgFacts Base.Hoare Base.Config
  Procs.NodeOps Procs.ActiveNodes Procs.Switchover Procs.Manager Proofs.NodeOpsProofs Proofs.ActiveNodesProofs Proofs.SwitchoverProofs
  Proofs.ManagerProofs Proofs.OutcomeProofs.
Import ListNotations.
Open Scope Z_scope.

(* monitor: has a lock request been answered with anything but "held"? *)
Definition ll_step (st : bool) (c : call) (r : resp) : bool :=
  match c, r with
  | LockAcquire, RBool true => st
  | LockAcquire, _ => true
  | _, _ => st
  end.
Definition ll_ok (st : bool) (c : call) : Prop := st = false.
Definition ll_post {X} (st : bool) (a : sw_err * X) : Prop := st = true -> lock_lost (fst a) = true.

Definition not_lock (c : call) : bool := match c with LockAcquire => false | _ => true end.
Lemma ll_quiet c : not_lock c = true -> ll_ok false c /\ neutral bool ll_step c.
Proof. intros H. split; [reflexivity|]. intros st r. destruct c; try reflexivity. discriminate H. Qed.
Lemma calmb_nl c : calmb c = true -> not_lock c = true. Proof. destruct c; cbn; try reflexivity; intros H; discriminate H. Qed.
Lemma calm1b_nl c : calm1b c = true -> not_lock c = true. Proof. destruct c; cbn; try reflexivity; intros H; discriminate H. Qed.
Lemma ll_of_calm {A} (p : prog A) : allcalls (fun _ c => calmb c = true) p -> allcalls (fun _ c => ll_ok false c /\ neutral bool ll_step c) p.
Proof. intros H. eapply allcalls_impl; [|exact H]. intros s c K. apply ll_quiet. apply calmb_nl. exact K. Qed.
Lemma ll_of_calm1 {A} (p : prog A) : allcalls (fun _ c => calm1b c = true) p -> allcalls (fun _ c => ll_ok false c /\ neutral bool ll_step c) p.
Proof. intros H. eapply allcalls_impl; [|exact H]. intros s c K. apply ll_quiet. apply calm1b_nl. exact K. Qed.
Lemma ll_of_nl {A} (p : prog A) : allcalls (fun _ c => not_lock c = true) p -> allcalls (fun _ c => ll_ok false c /\ neutral bool ll_step c) p.
Proof. intros H. eapply allcalls_impl; [|exact H]. intros s c K. apply ll_quiet. exact K. Qed.

Notation WP := (wp bool ll_step ll_ok).
Lemma wp_bind_quiet {A B} (p : prog A) (f : A -> prog B) (Q : bool -> B -> Prop) :
  allcalls (fun _ c => ll_ok false c /\ neutral bool ll_step c) p -> (forall a, WP false (f a) Q) -> WP false (bind p f) Q.
Proof. intros Hp Hf. apply wp_bind. apply wp_neutral; assumption. Qed.

Ltac sq := apply wp_bind_quiet; [apply ll_of_calm | ].
Ltac ifc := match goal with |- wp _ _ _ _ (if ?c then _ else _) _ => destruct c end.
Ltac err := (cbn [wp]; unfold ll_post; intros Hx; discriminate Hx).

(* a lock re-check: refused -> the continuation is the lock-lost exit *)
Lemma ll_lock s code {X} (mem : X) (k : prog (sw_err * X)) : lock_lost (SwErr code) = true -> WP false k ll_post ->
  WP false (l <- lock_acquire s ;; if negb l then Ret (SwErr code, mem) else k) ll_post.
Proof.
  intros Hc Hk. unfold lock_acquire. cbn [bind wp]. split; [reflexivity|]. intros r.
  destruct r as [er| |b| | | | | | | | | | | |];
    try (cbn [bind ll_step negb wp]; unfold ll_post; intros _; exact Hc).
  destruct b.
  - cbn [bind ll_step negb]. exact Hk.
  - cbn [bind ll_step negb wp]. unfold ll_post. intros _. exact Hc.
Qed.

Lemma sw_promote_lock_lost cfg env mem active nm mrs : WP false (sw_promote cfg env mem active nm mrs) ll_post.
Proof.
  pose proof CRb as CR. unfold sw_promote.
  apply ll_lock; [reflexivity|].
  sq; [apply (c_cluster_state calmb); first [exact CR | intros; reflexivity]|]. intros cs2.
  destruct (state_ping cs2 nm) as [[|]|]; try err; [|exact I].
  ifc; [err|].
  sq; [apply ac_exec; reflexivity|]. intros [e5|]; [err|].
  cbn [wp]. split.
  { induction active as [|h r IH]; [exact I|]. cbn [map]. split; [|exact IH].
    apply ll_of_calm1.
    destruct (state_ping cs2 h) as [pok|]; [|exact I].
    destruct (N.eqb h nm || negb pok); [exact I|]. apply allcalls_bind; [apply pcm_calm1|]. intros; exact I. }
  intros errs3. ifc; [err|].
  sq; [apply ac_replica_status; reflexivity|]. intros os.
  sq.
  { destruct (snd os); [dapp d_set_recovery|].
    destruct (fst os) as [rs|]; [|dapp d_set_recovery].
    destruct (is_slave_permanently_lost rs mrs); [dapp d_set_recovery|exact I]. }
  intros [rec|]; [err|].
  sq; [apply ac_exec; reflexivity|]. intros [e6|]; [err|].
  apply wp_bind_quiet; [apply ll_of_nl; apply ac_exec; reflexivity|]. intros [e7|]; [err|].
  sq; [apply (c_cluster_state calmb); first [exact CR | intros; reflexivity]|]. intros cs3.
  sq; [dapp d_update_active|]. intros ua. cbn zeta.
  apply wp_bind_quiet; [apply ll_of_nl; apply ac_exec; reflexivity|]. intros [e8|]; [err|].
  sq; [dapp d_stop_timing|]. intros _.
  sq; [apply (d_reenable calmb); first [exact calmb_stmt | exact calmb_dcs]|]. intros _.
  apply wp_bind_quiet; [apply ll_of_nl; unfold dcs_set_; cbn [allcalls]; split; [reflexivity|intros r; destruct r; try destruct e; exact I]|].
  intros e9. err.
Qed.

Lemma sw_after_positions_lock_lost cfg env sw mem active positions : WP false (sw_after_positions cfg env sw mem active positions) ll_post.
Proof.
  pose proof CRb as CR. unfold sw_after_positions.
  destruct (most_recent positions) as [|mrh mrs|]; [| |exact I].
  { cbn [wp]. split; [reflexivity|]. intros; err. }
  destruct (sw_choose cfg sw positions mrh) as [nm|]; [|err].
  destruct (negb (mem_host nm (map fst (se_all_hosts env)))); [err|].
  apply wp_bind_quiet.
  { destruct (negb (N.eqb nm mrh)); [|exact I].
    apply allcalls_bind; [apply ll_of_calm; apply ac_exec; reflexivity|]. intros [e|]; [exact I|].
    apply allcalls_bind; [apply ll_of_calm1; apply pcm_calm1|]. intros; exact I. }
  intros pre. destruct (negb pre); [err|].
  sq; [apply (c_now calmb); first [exact CR | intros; reflexivity]|]. intros t0.
  sq; [apply (c_wait_catch_up calmb); first [exact CR | intros; reflexivity]|]. intros cu.
  destruct cu as [[|]|]; try err. apply sw_promote_lock_lost.
Qed.

Theorem switchover_lock_lost_wp cfg env sw mem : WP false (perform_switchover cfg env sw mem) ll_post.
Proof.
  pose proof CRb as CR. unfold perform_switchover.
  ifc; [err|]. ifc; [err|].
  set (active := match sw_cause_ sw, sw_from sw with | CauseAuto, Some f => _ | _, _ => _ end).
  sq; [dapp d_opt_disable_all_k|]. intros [e0|]; [err|].
  apply wp_bind_quiet; [destruct (negb (is_failover sw)); [apply ll_of_calm; dapp d_timing_now|exact I]|]. intros _.
  cbn [wp]. split.
  { induction active as [|h r IH]; [exact I|]. cbn [map]. split; [|exact IH]. apply ll_of_calm; dapp d_freeze. }
  intros errs. ifc.
  { sq; [dapp d_finish|]. intros e. destruct e; err. }
  destruct (state_ping (se_state env) (se_old_master env)); [|exact I].
  cbn [wp]. split.
  { induction (filter_out active [se_old_master env]) as [|h r IH]; [exact I|]. cbn [map]. split; [|exact IH]. apply ll_of_calm; dapp d_stop_io. }
  intros errs2. ifc; [err|].
  apply ll_lock; [reflexivity|].
  sq; [apply (c_node_positions calmb); first [exact CR | intros; reflexivity]|]. intros op.
  destruct op as [positions|]; [|err].
  ifc; [err|]. ifc; [err|].
  apply sw_after_positions_lock_lost.
Qed.

(* the request handling of the iteration *)
Theorem handle_switchover_lock_lost cfg env m cs active master sw :
  safe bool ll_step ll_ok false (handle_switchover cfg env m cs active master sw).
Proof.
  eapply (wp_safe bool ll_step ll_ok _ _ (fun _ _ => True)).
  unfold handle_switchover.
  apply wp_bind_quiet; [apply ll_of_nl; unfold now_; cbn [allcalls]; split; [reflexivity|intros r; destruct r; exact I]|]. intros t.
  ifc.
  { apply wp_bind_quiet; [apply ll_of_calm; apply finish_false_calm|]. intros; cbn; exact I. }
  destruct (approve_switchover cfg sw active cs).
  { apply wp_bind_quiet; [apply ll_of_calm; apply finish_false_calm|]. intros; cbn; exact I. }
  apply wp_bind_quiet; [apply ll_of_calm; apply start_calm|]. intros [sw1 e]. destruct e; [exact I|].
  apply wp_bind.
  eapply wp_conseq; [|apply switchover_lock_lost_wp].
  intros st' r Hpost. unfold ll_post in Hpost.
  destruct st'.
  - (* a re-check was refused: lock_lost holds of the result, the iteration returns *)
    rewrite (Hpost eq_refl). exact I.
  - destruct (lock_lost (fst r)); [exact I|].
    cbn [wp]. split; [reflexivity|]. intros g.
    assert (F : WP false (fail_switchover sw1;;; Ret (with_an m (snd r))) (fun _ _ => True)).
    { apply wp_bind_quiet; [apply ll_of_calm; apply fail_calm|]. intros; cbn; exact I. }
    assert (G : WP false (finish_switchover sw1 true;;; Ret (with_an m (snd r))) (fun _ _ => True)).
    { apply wp_bind_quiet; [|intros; exact I]. apply ll_of_nl.
      unfold finish_switchover, stop_timing, now_, dcs_get_time, dcs_delete_, dcs_set_. cbn [negb]. pac. }
    replace (ll_step false (DcsGet PSwitch) g) with false by (destruct g; reflexivity).
    destruct g as [er| | | | | | | | | | | | | |]; try (destruct (fst r); [exact G|exact F]).
    destruct er; try (destruct (fst r); [exact G|exact F]). exact I.
Qed.

(* on traces: nothing follows a lock request that was not answered "held" *)
Definition refused (e : event) : Prop := ev_call e = LockAcquire /\ ev_resp e <> RBool true.
Lemma ll_trace_stuck tr : trace_ok bool ll_step ll_ok true tr -> tr = [].
Proof. destruct tr as [|e r]; [reflexivity|]. cbn. intros [K _]. discriminate K. Qed.
Lemma ll_trace_shape : forall tr, trace_ok bool ll_step ll_ok false tr ->
  forall t1 e t2, tr = t1 ++ e :: t2 -> refused e -> t2 = [].
Proof.
  induction tr as [|x r IH]; intros H t1 e t2 E [Hc Hr]; [destruct t1; discriminate E|].
  cbn in H. destruct H as [_ H].
  destruct t1 as [|y t1'].
  - cbn in E. inversion E; subst x r. rewrite Hc in H.
    assert (S : ll_step false LockAcquire (ev_resp e) = true).
    { destruct (ev_resp e) as [| |b| | | | | | | | | | | |]; try reflexivity. destruct b; [exfalso; apply Hr; reflexivity|reflexivity]. }
    rewrite S in H. exact (ll_trace_stuck _ H).
  - cbn in E. inversion E; subst y r.
    destruct (ll_step false (ev_call x) (ev_resp x)) eqn:S.
    + pose proof (ll_trace_stuck _ H) as K. destruct t1'; discriminate K.
    + exact (IH H t1' e t2 eq_refl (conj Hc Hr)).
Qed.

Theorem nothing_after_a_refused_lock cfg env m cs active master sw tr o :
  runs (handle_switchover cfg env m cs active master sw) tr o ->
  forall t1 e t2, tr = t1 ++ e :: t2 -> refused e -> t2 = [].
Proof.
  intros R. apply ll_trace_shape.
  exact (safe_sound bool ll_step ll_ok _ _ (handle_switchover_lock_lost cfg env m cs active master sw) tr o R).
Qed.
