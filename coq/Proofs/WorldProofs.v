(* The world run is one of the runs of the oracle semantics; and where one pass of the replica repair leads (C10). *)
From Coq Require Import ZArith NArith Bool List Lia Permutation.
From Mysync Require Import Gtid.Interval Gtid.GtidSet Base.Prog Base.ProgFacts Base.Config Env.World
  Procs.NodeOps Procs.Lost Procs.ActiveNodes Procs.Switchover Procs.Repair Procs.DiskGuard Procs.OfflineMode Proofs.RepairProofs Proofs.NoCrash.
Import ListNotations.
Open Scope Z_scope.

Lemma interleave2_app a : forall b, interleave2 a b (a ++ b).
Proof.
  induction a as [|x a' IH]; intros b; cbn [interleave2 app]; [reflexivity|].
  destruct b as [|y b']; [rewrite app_nil_r; reflexivity|]. left. split; [reflexivity|]. apply IH.
Qed.
Lemma interleave_concat ts : interleave ts (concat ts).
Proof.
  induction ts as [|a r IH]; cbn [interleave concat]; [reflexivity|]. exists (concat r). split; [exact IH|apply interleave2_app].
Qed.

(* the sequential execution of the branches, as a predicate, to talk about the nested fix of [wrun] *)
Fixpoint wgo (bs : list (host * prog resp)) (w : world) : option (list (host * resp)) * site * world * trace :=
  match bs with
  | [] => (Some [], 0, w, [])
  | (h, b) :: r =>
      match wrun b w with
      | (Done x, w1, t1) =>
          match wgo r w1 with
          | (Some rs, s0, w2, t2) => (Some ((h, x) :: rs), s0, w2, t1 ++ t2)
          | (None, s0, w2, t2) => (None, s0, w2, t1 ++ t2)
          end
      | (Panicked s0, w1, t1) => (None, s0, w1, t1)
      end
  end.
Lemma wrun_par {A} s bs (k : list (host * resp) -> prog A) w :
  wrun (Par s bs k) w =
  match wgo bs w with
  | (Some rs, _, w1, t1) => let '(o, w2, t2) := wrun (k rs) w1 in (o, w2, t1 ++ t2)
  | (None, s0, w1, t1) => (Panicked s0, w1, t1)
  end.
Proof.
  cbn [wrun].
  assert (E : forall l w0,
    (fix go (bs0 : list (host * prog resp)) (w1 : world) {struct bs0} : option (list (host * resp)) * site * world * trace :=
       match bs0 with
       | [] => (Some [], 0, w1, [])
       | (h, b) :: r =>
           match wrun b w1 with
           | (Done x, w2, t1) =>
               match go r w2 with
               | (Some rs, s0, w3, t2) => (Some ((h, x) :: rs), s0, w3, t1 ++ t2)
               | (None, s0, w3, t2) => (None, s0, w3, t1 ++ t2)
               end
           | (Panicked s0, w2, t1) => (None, s0, w2, t1)
           end
       end) l w0 = wgo l w0).
  { induction l as [|[h b] r IH]; intros w0; cbn [wgo]; [reflexivity|]. destruct (wrun b w0) as [[o1 w1] t1]. destruct o1; [rewrite IH|]; reflexivity. }
  rewrite E. reflexivity.
Qed.

Fixpoint wrun_runs {A} (p : prog A) {struct p} : forall w, runs p (wtrace (wrun p w)) (wout (wrun p w)).
Proof.
  destruct p as [a|s|s c k|s bs k]; intros w.
  - cbn. auto.
  - cbn. auto.
  - cbn [wrun]. destruct (wstep w c) as [w1 r] eqn:Es. pose proof (wrun_runs _ (k r) w1) as IH.
    destruct (wrun (k r) w1) as [[o w2] tr]. cbn [wtrace wout fst snd runs ev_site ev_call ev_resp] in *. auto.
  - rewrite wrun_par.
    assert (G : forall (bs0 : list (host * prog resp)) w0 acc_tr acc_rs,
      match wgo bs0 w0 with
      | (Some rs, _, w1, t1) =>
          forall tk o tr, runs (k (rev acc_rs ++ rs)) tk o -> tr = concat (rev acc_tr) ++ t1 ++ tk ->
          (fix branches (bs : list (host * prog resp)) (atr : list trace) (ars : list (host * resp)) : Prop :=
             match bs with
             | [] => exists tpar tk0 rs0, interleave (rev atr) tpar /\ tr = tpar ++ tk0 /\ Permutation (rev ars) rs0 /\ runs (k rs0) tk0 o
             | (h, b) :: bs' =>
                 exists tb ob, runs b tb ob /\
                   match ob with
                   | Done r => branches bs' (tb :: atr) ((h, r) :: ars)
                   | Panicked s' => o = Panicked s' /\ exists tpar, interleave (rev (tb :: atr)) tpar /\ tr = tpar
                   end
             end) bs0 acc_tr acc_rs
      | (None, s0, w1, t1) =>
          forall tr, tr = concat (rev acc_tr) ++ t1 ->
          (fix branches (bs : list (host * prog resp)) (atr : list trace) (ars : list (host * resp)) : Prop :=
             match bs with
             | [] => exists tpar tk0 rs0, interleave (rev atr) tpar /\ tr = tpar ++ tk0 /\ Permutation (rev ars) rs0 /\ runs (k rs0) tk0 (Panicked s0)
             | (h, b) :: bs' =>
                 exists tb ob, runs b tb ob /\
                   match ob with
                   | Done r => branches bs' (tb :: atr) ((h, r) :: ars)
                   | Panicked s' => Panicked (A:=A) s0 = Panicked s' /\ exists tpar, interleave (rev (tb :: atr)) tpar /\ tr = tpar
                   end
             end) bs0 acc_tr acc_rs
      end).
    { induction bs0 as [|[h b] r IHb]; intros w0 acc_tr acc_rs; cbn [wgo].
      - intros tk o tr Hk ->. exists (concat (rev acc_tr)), tk, (rev acc_rs). rewrite app_nil_r in Hk. cbn [app].
        split; [apply interleave_concat|]. split; [reflexivity|]. split; [apply Permutation_refl|exact Hk].
      - pose proof (wrun_runs _ b w0) as Hb. destruct (wrun b w0) as [[ob w1] tb]. cbn [wtrace wout fst snd] in Hb.
        destruct ob as [x|s0].
        + specialize (IHb w1 (tb :: acc_tr) ((h, x) :: acc_rs)). destruct (wgo r w1) as [[[[rs|] s1] w2] t2].
          * intros tk o tr Hk E. exists tb, (Done x). split; [exact Hb|].
            apply (IHb tk o tr); [cbn [rev]; rewrite <- app_assoc; exact Hk|].
            rewrite E. cbn [rev]. rewrite concat_app. cbn [concat]. rewrite app_nil_r, <- !app_assoc. reflexivity.
          * intros tr E. exists tb, (Done x). split; [exact Hb|]. apply (IHb tr).
            rewrite E. cbn [rev]. rewrite concat_app. cbn [concat]. rewrite app_nil_r, <- !app_assoc. reflexivity.
        + intros tr E. exists tb, (Panicked s0). split; [exact Hb|]. split; [reflexivity|].
          exists (concat (rev (tb :: acc_tr))). split; [apply interleave_concat|].
          rewrite E. cbn [rev]. rewrite concat_app. cbn [concat]. rewrite app_nil_r. reflexivity. }
    specialize (G bs w [] []). destruct (wgo bs w) as [[[[rs|] s1] w1] t1].
    + pose proof (wrun_runs _ (k rs) w1) as Hk. destruct (wrun (k rs) w1) as [[o w2] t2]. cbn [wtrace wout fst snd] in *.
      cbn [runs]. apply (G t2 o (t1 ++ t2) Hk). reflexivity.
    + cbn [wtrace wout fst snd runs]. apply (G t1). reflexivity.
Qed.

(* ---------------------------------------------------------------- running a bind *)
Lemma wrun_bind {A B} (p : prog A) (f : A -> prog B) : forall w,
  wrun (bind p f) w =
  match wrun p w with
  | (Done a, w1, t1) => let '(o2, w2, t2) := wrun (f a) w1 in (o2, w2, t1 ++ t2)
  | (Panicked s, w1, t1) => (Panicked s, w1, t1)
  end.
Proof.
  induction p as [a|s|s c k IH|s bs k IH] using prog_ind_k; intros w.
  - cbn [bind wrun]. destruct (wrun (f a) w) as [[o2 w2] t2]. reflexivity.
  - reflexivity.
  - cbn [bind wrun]. destruct (wstep w c) as [w1 r]. rewrite IH. destruct (wrun (k r) w1) as [[o w2] tr]. destruct o as [a|s0]; [|reflexivity].
    destruct (wrun (f a) w2) as [[o2 w3] t2]. reflexivity.
  - cbn [bind]. rewrite !wrun_par. destruct (wgo bs w) as [[[[rs|] s1] w1] t1]; [|reflexivity].
    rewrite IH. destruct (wrun (k rs) w1) as [[o w2] t2]. destruct o as [a|s0]; [|reflexivity].
    destruct (wrun (f a) w2) as [[o2 w3] t3]. rewrite app_assoc. reflexivity.
Qed.

(* programs that only read leave the server as it is *)
Definition reads_only (c : call) : bool := match c with Sql _ st => stmt_reads st | _ => true end.   (* no statement that changes a server *)
Lemma srv_step_reads s st : stmt_reads st = true -> fst (srv_step s st) = s.
Proof. destruct st; cbn; intros H; try discriminate H; reflexivity. Qed.
Lemma wstep_reads w c : reads_only c = true -> w_srv (fst (wstep w c)) = w_srv w /\ w_host (fst (wstep w c)) = w_host w.
Proof.
  destruct c; cbn [reads_only]; intros H; cbn [wstep]; try (split; reflexivity).
  - destruct (N.eqb h (w_host w)); [|split; reflexivity]. pose proof (srv_step_reads (w_srv w) s H) as E.
    destruct (srv_step (w_srv w) s) as [s' r]. cbn [fst] in *. subst s'. split; reflexivity.
  - destruct p; split; reflexivity.
  - destruct p; try (split; reflexivity). destruct v; split; reflexivity.
Qed.
Fixpoint wrun_reads {A} (p : prog A) {struct p} : allcalls (fun _ c => reads_only c = true) p ->
  forall w, w_srv (wworld (wrun p w)) = w_srv w /\ w_host (wworld (wrun p w)) = w_host w.
Proof.
  destruct p as [a|s|s c k|s bs k]; cbn [allcalls]; intros H w.
  - split; reflexivity.
  - split; reflexivity.
  - destruct H as [Hc Hk]. cbn [wrun]. destruct (wstep_reads w c Hc) as [E1 E2]. destruct (wstep w c) as [w1 r]. cbn [fst] in *.
    destruct (wrun_reads _ (k r) (Hk r) w1) as [F1 F2]. destruct (wrun (k r) w1) as [[o w2] tr]. unfold wworld in *. cbn [fst snd] in *.
    split; congruence.
  - destruct H as [Hb Hk]. rewrite wrun_par.
    assert (G : forall l w0, (fix go (bs : list (host * prog resp)) : Prop :=
                 match bs with [] => True | (_, b) :: r => allcalls (fun _ c => reads_only c = true) b /\ go r end) l ->
              let '(_, _, w1, _) := wgo l w0 in w_srv w1 = w_srv w0 /\ w_host w1 = w_host w0).
    { induction l as [|[h b] r IHl]; intros w0 Hl; cbn [wgo]; [split; reflexivity|]. destruct Hl as [H1 H2].
      destruct (wrun_reads _ b H1 w0) as [F1 F2]. destruct (wrun b w0) as [[ob w1] tb]. unfold wworld in *. cbn [fst snd] in *.
      destruct ob as [x|s0]; [|split; assumption]. specialize (IHl w1 H2). destruct (wgo r w1) as [[[[rs|] s1] w2] t2]; destruct IHl; split; congruence. }
    specialize (G bs w Hb). destruct (wgo bs w) as [[[[rs|] s1] w1] t1]; [|exact G].
    destruct (wrun_reads _ (k rs) (Hk rs) w1) as [F1 F2]. destruct (wrun (k rs) w1) as [[o w2] t2]. unfold wworld in *. cbn [fst snd] in *.
    destruct G. split; congruence.
Qed.

(* the world never changes whose server it is *)
Lemma wstep_host w c : w_host (fst (wstep w c)) = w_host w.
Proof.
  destruct c; cbn [wstep]; try reflexivity.
  - destruct (N.eqb h (w_host w)); [|reflexivity]. destruct (srv_step (w_srv w) s) as [s' r]. reflexivity.
  - destruct p; reflexivity.
  - destruct p; try reflexivity. destruct v; reflexivity.
Qed.
Fixpoint wrun_host {A} (p : prog A) {struct p} : forall w, w_host (wworld (wrun p w)) = w_host w.
Proof.
  destruct p as [a|s|s c k|s bs k]; intros w.
  - reflexivity.
  - reflexivity.
  - cbn [wrun]. pose proof (wstep_host w c) as E. destruct (wstep w c) as [w1 r]. cbn [fst] in E.
    pose proof (wrun_host _ (k r) w1) as F. destruct (wrun (k r) w1) as [[o w2] tr]. unfold wworld in *. cbn [fst snd] in *. congruence.
  - rewrite wrun_par.
    assert (G : forall l w0, let '(_, _, w1, _) := wgo l w0 in w_host w1 = w_host w0).
    { clear -wrun_host. induction l as [|[h b] r IHl]; intros w0; cbn [wgo]; [reflexivity|].
      pose proof (wrun_host _ b w0) as F. destruct (wrun b w0) as [[ob w1] tb]. unfold wworld in F. cbn [fst snd] in F.
      destruct ob as [x|s0]; [|exact F]. specialize (IHl w1). destruct (wgo r w1) as [[[[rs|] s1] w2] t2]; congruence. }
    specialize (G bs w). destruct (wgo bs w) as [[[[rs|] s1] w1] t1]; [|exact G].
    pose proof (wrun_host _ (k rs) w1) as F. destruct (wrun (k rs) w1) as [[o w2] t2]. unfold wworld in *. cbn [fst snd] in *. congruence.
Qed.

(* ---------------------------------------------------------------- C10: where one pass of the replica repair leads *)
Definition set_srv (w : world) (s : srv) : world :=
  {| w_host := w_host w; w_srv := s; w_now := w_now w; w_created := w_created w; w_active := w_active w |}.

Lemma wrun_exec s h st w : w_host w = h ->
  wout (wrun (exec_ s h st) w) = Done (match snd (srv_step (w_srv w) st) with ROk => None | RErr e => Some e | _ => Some EOther end) /\
  wworld (wrun (exec_ s h st) w) = set_srv w (fst (srv_step (w_srv w) st)).
Proof.
  intros <-. unfold exec_. cbn [wrun wstep]. rewrite N.eqb_refl. destruct (srv_step (w_srv w) st) as [s' r]. cbn [fst snd].
  destruct r; cbn; split; reflexivity.
Qed.

Lemma wait_repl_reads f h d : allcalls (fun _ c => reads_only c = true) (wait_repl_start f h d).
Proof.
  induction f as [|f IH]; cbn [wait_repl_start]; [exact I|].
  apply allcalls_bind; [unfold now_; cbn; split; [reflexivity|intros; exact I]|]. intros t. destruct (t <? d); [|exact I].
  apply allcalls_bind; [unfold replica_status; cbn; split; [reflexivity|intros r; destruct r; exact I]|]. intros [st e]. cbn [fst snd].
  destruct e; [exact IH|]. destruct st as [rs|]; [|cbn; split; [reflexivity|intros; exact IH]].
  destruct (rs_io rs && rs_sql rs); [exact I|]. cbn. split; [reflexivity|intros; exact IH].
Qed.

Definition fresh_running (m : host) : chan := {| c_source := m; c_io := true; c_sql := true; c_io_errno := 0; c_sql_errno := 0 |}.

(* performChangeMaster in the world: the server ends as a running replica of m, nothing else about it changes *)
Lemma change_master_world cfg h m w : w_host w = h -> h <> m ->
  wout (wrun (perform_change_master cfg h m) w) = Done None /\
  w_host (wworld (wrun (perform_change_master cfg h m) w)) = h /\
  w_srv (wworld (wrun (perform_change_master cfg h m) w)) = with_chan (w_srv w) (Some (fresh_running m)) [].
Proof.
  intros Hh Hne. unfold perform_change_master. destruct (N.eqb_spec h m) as [E|_]; [contradiction|].
  rewrite wrun_bind. destruct (wrun_exec 2082 h SStopRepl w Hh) as [O1 W1].
  destruct (wrun (exec_ 2082 h SStopRepl) w) as [[o1 w1] t1]. unfold wout, wworld in O1, W1. cbn [fst snd] in O1, W1. subst o1 w1.
  assert (S1 : snd (srv_step (w_srv w) SStopRepl) = ROk) by (cbn; destruct (s_chan (w_srv w)); reflexivity). rewrite S1.
  set (s1 := fst (srv_step (w_srv w) SStopRepl)).
  assert (C1 : match s_chan s1 with Some c => chan_running c = false | None => True end).
  { subst s1. cbn [srv_step fst]. destruct (s_chan (w_srv w)) as [c|] eqn:Ec; [cbn; reflexivity|rewrite Ec; exact I]. }
  assert (K1 : with_chan s1 (Some {| c_source := m; c_io := false; c_sql := false; c_io_errno := 0; c_sql_errno := 0 |}) [] =
               with_chan (w_srv w) (Some {| c_source := m; c_io := false; c_sql := false; c_io_errno := 0; c_sql_errno := 0 |}) []).
  { subst s1. cbn [srv_step fst]. destruct (s_chan (w_srv w)); reflexivity. }
  rewrite wrun_bind. destruct (wrun_exec 2088 h (SChangeSource m) (set_srv w s1) Hh) as [O2 W2].
  destruct (wrun (exec_ 2088 h (SChangeSource m)) (set_srv w s1)) as [[o2 w2] t2]. unfold wout, wworld in O2, W2. cbn [fst snd] in O2, W2. subst o2 w2.
  cbn [set_srv w_srv] in *.
  assert (S2 : srv_step s1 (SChangeSource m) = (with_chan s1 (Some {| c_source := m; c_io := false; c_sql := false; c_io_errno := 0; c_sql_errno := 0 |}) [], ROk)).
  { cbn [srv_step]. destruct (s_chan s1) as [c|]; [rewrite C1|]; reflexivity. }
  rewrite S2. cbn [fst snd]. rewrite K1.
  set (s2 := with_chan (w_srv w) (Some {| c_source := m; c_io := false; c_sql := false; c_io_errno := 0; c_sql_errno := 0 |}) []).
  rewrite wrun_bind.
  assert (Hh2 : w_host (set_srv (set_srv w s1) s2) = h) by exact Hh.
  destruct (wrun_exec 2094 h SStartRepl (set_srv (set_srv w s1) s2) Hh2) as [O3 W3].
  destruct (wrun (exec_ 2094 h SStartRepl) (set_srv (set_srv w s1) s2)) as [[o3 w3] t3]. unfold wout, wworld in O3, W3. cbn [fst snd] in O3, W3. subst o3 w3.
  cbn [set_srv w_srv srv_step s_chan with_chan fst snd] in *. subst s2. cbn [with_chan s_chan threads c_source c_io c_sql c_io_errno c_sql_errno s_retr fst snd].
  match goal with |- context [wrun ?tl ?w0] => set (tail := tl); set (W := w0) end.
  assert (TA : allcalls (fun _ c => reads_only c = true) tail).
  { subst tail. apply allcalls_bind; [unfold now_; cbn; split; [reflexivity|intros; exact I]|]. intros t.
    apply allcalls_bind; [apply wait_repl_reads|intros; exact I]. }
  assert (TN : nopanic tail).
  { subst tail. apply nopanic_bind; [unfold now_; cbn; intros r; destruct r; exact I|]. intros t.
    apply nopanic_bind; [apply np_wait_repl_start|intros; exact I]. }
  assert (TR : rets (fun r : oerr => r = None) tail).
  { subst tail. apply rets_bind. intros t. apply rets_bind. intros _. cbn. reflexivity. }
  pose proof (wrun_reads tail TA W) as R12. pose proof (wrun_runs tail W) as RR.
  match goal with |- context [@wrun ?T tail W] => change (@wrun T tail W) with (wrun tail W) end.
  remember (wrun tail W) as rr eqn:Err. clear Err.
  destruct R12 as [R1 R2]. destruct rr as [[o4 w4] t4]. unfold wworld, wout, wtrace in *. cbn [fst snd] in *.
  destruct (nopanic_sound tail TN _ _ RR) as [u ->]. pose proof (rets_sound _ tail TR _ _ RR) as ->.
  split; [reflexivity|]. split; [rewrite R2; subst W; exact Hh|]. rewrite R1. subst W. reflexivity.
Qed.

(* what getNodeState sees of the server (fault-free) *)
Definition observed_as (s : srv) (casc : bool) (ns : node_state) : Prop :=
  ns_ping_ok ns = true /\ ns_ro ns = s_ro s /\ ns_offline ns = s_offline s /\ ns_is_cascade ns = casc /\
  ns_is_master ns = (match s_chan s with None => true | Some _ => false end) /\ ns_slave ns = status_of s.

Lemma observe_world h casc w : w_host w = h ->
  exists ns tr, wrun (get_node_state h casc) w = (Done ns, {| w_host := w_host w; w_srv := w_srv w; w_now := w_now w + 1; w_created := w_created w; w_active := w_active w |}, tr)
               /\ observed_as (w_srv w) casc ns.
Proof.
  intros <-. unfold get_node_state, ping, is_read_only, is_offline, replica_status, repl_settings, semi_sync_status, gtid_executed.
  repeat (first [rewrite N.eqb_refl | progress cbn [wrun wstep bind srv_step negb fst snd w_host w_srv]]).
  unfold observed_as, status_of. destruct (s_chan (w_srv w)) as [c|] eqn:Ec;
    repeat (first [rewrite N.eqb_refl | progress cbn [wrun wstep bind srv_step negb fst snd w_host w_srv]]);
    (eexists; eexists; split; [reflexivity|]); cbn; auto 10.
Qed.

(* a program made of non-mutating calls that never crashes: outcome Done, server and host untouched *)
Lemma wrun_quiet {A} (p : prog A) w :
  allcalls (fun _ c => reads_only c = true) p -> nopanic p ->
  exists a, wout (wrun p w) = Done a /\ w_srv (wworld (wrun p w)) = w_srv w /\ w_host (wworld (wrun p w)) = w_host w.
Proof.
  intros Ha Hn. destruct (wrun_reads p Ha w) as [R1 R2]. destruct (nopanic_sound p Hn _ _ (wrun_runs p w)) as [a E].
  exists a. auto.
Qed.

Definition replica_ok (m : host) (s : srv) : Prop :=
  s_ro s = true /\ exists c, s_chan s = Some c /\ c_source c = m /\ c_io c = true /\ c_sql c = true.
Definition no_repl_error (s : srv) : Prop :=
  match s_chan s with Some c => c_io_errno c = 0 /\ c_sql_errno c = 0 | None => True end.

(* step lemmas in the world *)
Lemma set_read_only_world h w : w_host w = h ->
  wout (wrun (set_read_only h true) w) = Done None /\ w_host (wworld (wrun (set_read_only h true) w)) = h /\
  w_srv (wworld (wrun (set_read_only h true) w)) = with_ro (w_srv w) true true.
Proof.
  intros <-. unfold set_read_only, set_read_only_once, exec_, is_read_only.
  repeat (first [rewrite N.eqb_refl | progress cbn [wrun wstep bind srv_step negb fst snd w_host w_srv with_ro s_ro s_sro Bool.eqb wout wworld]]).
  auto.
Qed.

Lemma stop_repl_on_master_world h w : w_host w = h ->
  (exists e, wout (wrun (stop_replication_on_master h) w) = Done e) /\ w_host (wworld (wrun (stop_replication_on_master h) w)) = h /\
  s_chan (w_srv (wworld (wrun (stop_replication_on_master h) w))) = s_chan (w_srv w) /\
  s_ro (w_srv (wworld (wrun (stop_replication_on_master h) w))) = s_ro (w_srv w).
Proof.
  intros <-. unfold stop_replication_on_master, exec_.
  repeat (first [rewrite N.eqb_refl | progress cbn [wrun wstep bind srv_step negb fst snd w_host w_srv wout wworld with_offline with_semi s_chan s_ro]]).
  eauto.
Qed.

Lemma wbind_spec {A B} (p : prog A) (f : A -> prog B) w a : wout (wrun p w) = Done a ->
  wout (wrun (bind p f) w) = wout (wrun (f a) (wworld (wrun p w))) /\
  wworld (wrun (bind p f) w) = wworld (wrun (f a) (wworld (wrun p w))).
Proof.
  intros H. rewrite wrun_bind. destruct (wrun p w) as [[o w1] t1]. unfold wout, wworld in *. cbn [fst snd] in *. subst o.
  destruct (wrun (f a) w1) as [[o2 w2] t2]. split; reflexivity.
Qed.


Ltac qac := repeat first
  [ exact I
  | reflexivity
  | match goal with
    | |- allcalls _ (bind _ _) => apply allcalls_bind; [|intros ?]
    | |- allcalls _ (match ?x with _ => _ end) => destruct x
    | |- allcalls _ (if ?x then _ else _) => destruct x
    | |- allcalls _ (let '(_, _) := ?x in _) => destruct x
    | |- allcalls _ (Do _ _ _) => cbn [allcalls]; split; [|intros ?]
    | |- allcalls _ (Ret _) => exact I
    | |- allcalls _ (Panic _) => exact I
    end ].
Lemma set_recovery_quiet h : allcalls (fun _ c => reads_only c = true) (set_recovery h).
Proof. unfold set_recovery, get_active_nodes, set_active_nodes, dcs_create_tolerant. qac. Qed.

(* THE CONVERGENCE STEP (C10): one pass of the repair of a reachable HA replica whose replication is not in error
   leaves it read-only and a running replica of the recorded master - from ANY combination of read-only flags,
   replication source (the master, another host, none: a stale master) and thread states. *)
Ltac wb p w a O :=
  match goal with |- context [wrun (bind p ?f) w] =>
    let E1 := fresh "E" in let E2 := fresh "E" in destruct (wbind_spec p f w a O) as [E1 E2]; rewrite E1, E2; clear E1 E2 end.

Theorem replica_repair_converges cfg env h ns mem w :
  w_host w = h -> h <> re_master env -> observed_as (w_srv w) false ns -> no_repl_error (w_srv w) ->
  rm_repair mem = [] ->
  (exists a, wout (wrun (repair_slave_node cfg env h ns mem) w) = Done a) /\
  replica_ok (re_master env) (w_srv (wworld (wrun (repair_slave_node cfg env h ns mem) w))).
Proof.
  intros Hh Hne (Hping & Hro & Hoff & Hcasc & Hmaster & Hslave) Herr Hmem.
  unfold repair_slave_node.
  (* step 1: read-only *)
  set (p1 := if negb (ns_ro ns) then set_read_only h true;;; Ret tt else Ret tt).
  assert (S1 : wout (wrun p1 w) = Done tt /\ w_host (wworld (wrun p1 w)) = h /\
               s_ro (w_srv (wworld (wrun p1 w))) = true /\ s_chan (w_srv (wworld (wrun p1 w))) = s_chan (w_srv w)).
  { subst p1. rewrite Hro. destruct (s_ro (w_srv w)) eqn:Er; cbn [negb].
    - cbn. auto.
    - destruct (set_read_only_world h w Hh) as (O & H1 & H2).
      destruct (wbind_spec (set_read_only h true) (fun _ => Ret tt) w None O) as [E1 E2]. rewrite E1, E2. cbn [wrun wout wworld fst snd].
      split; [reflexivity|]. split; [exact H1|]. rewrite H2. split; reflexivity. }
  destruct S1 as (O1 & H1 & R1 & C1).
  wb p1 w tt O1.
  set (w1 := wworld (wrun p1 w)) in *.
  rewrite Hmaster. destruct (s_chan (w_srv w)) as [c|] eqn:Ec.
  - (* it has a channel *)
    rewrite Hcasc. cbn [negb]. cbn [bind].
    assert (Hsl : ns_slave ns = Some {| rs_source := c_source c; rs_io := c_io c; rs_sql := c_sql c; rs_io_errno := c_io_errno c; rs_sql_errno := c_sql_errno c;
                      rs_lag := (if c_io c && c_sql c then Some 0 else None); rs_executed := s_exec (w_srv w); rs_retrieved := s_retr (w_srv w); rs_file := 1%N; rs_pos := 0 |}).
    { rewrite Hslave. unfold status_of. rewrite Ec. reflexivity. }
    rewrite Hsl. cbn [rs_source].
    unfold no_repl_error in Herr. rewrite Ec in Herr. destruct Herr as [Ei Es].
    assert (MR : forall w0, w_host w0 = h -> replica_ok (re_master env) (w_srv w0) ->
              (exists a, wout (wrun (mark_replication_running cfg h (set_failed_at mem h None)) w0) = Done a) /\
              replica_ok (re_master env) (w_srv (wworld (wrun (mark_replication_running cfg h (set_failed_at mem h None)) w0)))).
    { intros w0 _ Hok. unfold mark_replication_running, set_failed_at. cbn [rm_repair]. rewrite Hmem. cbn [assoc wrun wout wworld fst snd]. eauto. }
    destruct (N.eqb_spec (c_source c) (re_master env)) as [Esrc|Nsrc]; cbn [negb].
    + (* right source: start it if stopped *)
      unfold repl_state_of. cbn [rs_io rs_sql rs_io_errno rs_sql_errno]. rewrite Ei, Es. cbn [Z.eqb andb].
      destruct (c_io c && c_sql c) eqn:Erun.
      * (* running: nothing to do *)
        cbn [bind]. destruct (MR w1 H1) as (O & K).
        { split; [exact R1|]. exists c. rewrite C1. apply andb_true_iff in Erun. destruct Erun. auto. }
        exact (conj O K).
      * (* stopped *)
        destruct (wrun_exec 1870 h SStartRepl w1 H1) as [Oe We].
        assert (Se : srv_step (w_srv w1) SStartRepl = (with_chan (w_srv w1) (Some (threads c true true)) (s_retr (w_srv w1)), ROk)) by (cbn [srv_step]; rewrite C1; reflexivity).
        rewrite Se in Oe, We. cbn [fst snd] in Oe, We.
        destruct (wbind_spec (exec_ 1870 h SStartRepl) (fun _ => Ret tt) w1 None Oe) as [F1 F2].
        set (p2 := exec_ 1870 h SStartRepl;;; Ret tt) in *.
        assert (O2 : wout (wrun p2 w1) = Done tt) by (rewrite F1; reflexivity).
        destruct (wbind_spec p2 (fun _ => mark_replication_running cfg h (set_failed_at mem h None)) w1 tt O2) as [G1 G2].
        rewrite G1, G2. destruct (MR (wworld (wrun p2 w1))) as (O & K).
        { rewrite F2. cbn [wrun wworld fst snd]. rewrite We. exact H1. }
        { rewrite F2. cbn [wrun wworld fst snd]. rewrite We. cbn [set_srv w_srv]. split; [exact R1|].
          exists (threads c true true). cbn. auto. }
        exact (conj O K).
    + (* wrong source: re-point *)
      destruct (change_master_world cfg h (re_master env) w1 H1 Hne) as (Oc & Hc & Sc).
      destruct (wbind_spec (perform_change_master cfg h (re_master env)) (fun _ => Ret tt) w1 None Oc) as [F1 F2].
      set (p2 := perform_change_master cfg h (re_master env);;; Ret tt) in *.
      assert (O2 : wout (wrun p2 w1) = Done tt) by (rewrite F1; reflexivity).
      assert (OK2 : w_host (wworld (wrun p2 w1)) = h /\ replica_ok (re_master env) (w_srv (wworld (wrun p2 w1)))).
      { rewrite F2. cbn [wrun wworld fst snd]. split; [exact Hc|]. rewrite Sc. split; [exact R1|]. exists (fresh_running (re_master env)). cbn. auto. }
      destruct OK2 as [Hh2 Hok2].
      (* what follows depends on the OLD status only through the error test, which is excluded *)
      unfold repl_state_of. cbn [rs_io rs_sql rs_io_errno rs_sql_errno]. rewrite Ei, Es. cbn [Z.eqb andb].
      destruct (wbind_spec p2 (fun _ => if c_io c && c_sql c then mark_replication_running cfg h (set_failed_at mem h None) else mark_replication_running cfg h (set_failed_at mem h None)) w1 tt O2) as [G1 G2].
      destruct (c_io c && c_sql c); rewrite G1, G2; destruct (MR _ Hh2 Hok2) as (O & K); exact (conj O K).
  - (* no channel: a stale master *)
    cbn [bind].
    destruct (stop_repl_on_master_world h w1 H1) as ((e1 & Os) & Hs & Cs & Rs).
    wb (stop_replication_on_master h) w1 e1 Os.
    set (w2 := wworld (wrun (stop_replication_on_master h) w1)) in *.
    destruct (change_master_world cfg h (re_master env) w2 Hs Hne) as (Oc & Hc & Sc).
    wb (perform_change_master cfg h (re_master env)) w2 (@None err) Oc.
    set (w3 := wworld (wrun (perform_change_master cfg h (re_master env)) w2)) in *.
    destruct (wrun_quiet (set_recovery h) w3 (set_recovery_quiet h) (np_set_recovery h)) as (e3 & Or & Sr & Hr).
    destruct (wbind_spec (set_recovery h) (fun _ => Ret mem) w3 e3 Or) as [E1 E2]. rewrite E1, E2. cbn [wrun wout wworld fst snd].
    split; [eauto|]. rewrite Sr, Sc. split; [cbn [with_chan s_ro]; rewrite Rs; exact R1|]. exists (fresh_running (re_master env)). cbn. auto.
Qed.

(* the premises are satisfiable: a writable replica of the wrong source with a stopped SQL thread *)
Definition w_example : world :=
  {| w_host := 2%N;
     w_srv := {| s_ro := false; s_sro := false; s_offline := false;
                 s_chan := Some {| c_source := 3%N; c_io := true; c_sql := false; c_io_errno := 0; c_sql_errno := 0 |};
                 s_semi_m := false; s_semi_s := true; s_wait := 1; s_flush := 1; s_sync := 1; s_exec := []; s_retr := [] |};
     w_now := 0; w_created := []; w_active := [1%N; 2%N] |}.
Lemma world_premises_hold : exists ns, observed_as (w_srv w_example) false ns /\ no_repl_error (w_srv w_example) /\ ~ replica_ok 1%N (w_srv w_example).
Proof.
  destruct (observe_world 2%N false w_example eq_refl) as (ns & tr & _ & H). exists ns. split; [exact H|]. split; [cbn; auto|].
  intros [K _]. discriminate K.
Qed.

(* stability: a replica that is in the canonical state is only looked at *)
Definition looks_only (c : call) : bool :=
  match c with Sql _ st => stmt_reads st | DcsGet _ | DcsChildren _ | Now | Sleep _ => true | _ => false end.
Theorem converged_replica_left_alone cfg env h ns mem rs :
  ns_ro ns = true -> ns_is_master ns = false -> ns_is_cascade ns = false -> ns_slave ns = Some rs ->
  rs_source rs = re_master env -> rs_io rs = true -> rs_sql rs = true ->
  allcalls (fun _ c => looks_only c = true) (repair_slave_node cfg env h ns mem).
Proof.
  intros Hro Hm Hc Hs Hsrc Hio Hsql. unfold repair_slave_node. rewrite Hro, Hm, Hc, Hs. cbn [negb bind].
  rewrite Hsrc, N.eqb_refl. cbn [negb]. unfold repl_state_of. rewrite Hio, Hsql. cbn [andb bind].
  unfold mark_replication_running. cbn [set_failed_at rm_repair].
  destruct (assoc h (rm_repair mem)) as [st|]; [|exact I].
  apply allcalls_bind; [unfold cooldown_passed, now_; qac|]. intros cp. destruct (negb cp); [exact I|].
  apply allcalls_bind; [unfold replica_status; qac|]. intros [s e]. cbn [fst snd]. destruct e; [exact I|]. destruct s; [|exact I].
  destruct (slave_ahead _ _); exact I.
Qed.

(* THE MASTER'S SIDE (C10): "bring the master online, writable".  With no disk-usage report in the health records (disk
   pressure is not among the dimensions of C10) the disk guard decides by the master's read_only flag alone ... *)
Lemma guard_fold_no_reports cfg m dcs : (forall h ns, In (h, ns) dcs -> ns_disk ns = None) ->
  forall acc, fold_left (guard_step cfg m) dcs acc = acc.
Proof.
  induction dcs as [|[h ns] r IH]; intros Hd acc; [reflexivity|]. cbn [fold_left].
  unfold guard_step at 2. rewrite (Hd h ns (or_introl eq_refl)). apply IH. intros h' ns' Hin. apply (Hd h' ns'). right. exact Hin.
Qed.
Lemma guard_no_reports cfg m ms dcs : (forall h ns, In (h, ns) dcs -> ns_disk ns = None) ->
  guard_decide cfg m ms dcs = if negb (ns_ro ms) then GaNone else GaSetWritable.
Proof.
  intros Hd. unfold guard_decide. rewrite (guard_fold_no_reports cfg m dcs Hd). cbn. reflexivity.
Qed.

(* ... and one fault-free pass of repairMasterNode leaves the master writable (read_only = super_read_only = 0) from ANY
   combination of the two flags; a writable master gets no statement that changes it *)
Theorem master_repair_unfences cfg env ms w :
  w_host w = re_master env -> ns_ro ms = s_ro (w_srv w) ->
  (forall h ns, In (h, ns) (re_state_dcs env) -> ns_disk ns = None) ->
  wout (wrun (repair_master_node cfg env ms) w) = Done tt /\
  s_ro (w_srv (wworld (wrun (repair_master_node cfg env ms) w))) = false /\
  (s_ro (w_srv w) = true -> s_sro (w_srv (wworld (wrun (repair_master_node cfg env ms) w))) = false) /\
  (s_ro (w_srv w) = false -> w_srv (wworld (wrun (repair_master_node cfg env ms) w)) = w_srv w).
Proof.
  intros Hh Hro Hd. unfold repair_master_node, repair_read_only_on_master. rewrite (guard_no_reports cfg _ ms _ Hd), Hro.
  destruct (s_ro (w_srv w)) eqn:Er; cbn [negb].
  - unfold exec_. cbn [bind wrun wstep]. rewrite <- Hh, N.eqb_refl. cbn [srv_step wrun wstep bind w_host w_srv]. rewrite N.eqb_refl.
    cbn [srv_step wrun wstep bind w_host w_srv wout wworld fst snd with_ro s_ro s_sro].
    repeat split; try reflexivity. intros K; discriminate K.
  - cbn [bind wrun wstep]. rewrite <- Hh, N.eqb_refl. cbn [srv_step wrun wstep bind w_host w_srv wout wworld fst snd].
    repeat split; try reflexivity; auto. intros K; discriminate K.
Qed.

(* the master is brought online: a master that is offline and not marked for recovery is set online by one pass *)
Theorem master_offline_repair_brings_online h ns w :
  w_host w = h -> ns_offline ns = s_offline (w_srv w) ->
  wout (wrun (repair_master_offline h ns) w) = Done tt /\
  s_offline (w_srv (wworld (wrun (repair_master_offline h ns) w))) = false /\
  s_ro (w_srv (wworld (wrun (repair_master_offline h ns) w))) = s_ro (w_srv w).
Proof.
  intros Hh Hoff. unfold repair_master_offline, is_recovery_needed, exec_. rewrite Hoff.
  destruct (s_offline (w_srv w)) eqn:Eo.
  - cbn [bind wrun wstep]. rewrite <- Hh, N.eqb_refl. cbn [srv_step wrun wstep bind w_host w_srv wout wworld fst snd with_offline s_offline s_ro].
    auto.
  - cbn [wrun wout wworld fst snd]. auto.
Qed.

(* THE FIXED POINT (C10, "repeated manager iterations"): the canonical state of a replica is stable - a further pass over
   a server that is a read-only running replica of the recorded master leaves the server exactly as it is.  Together
   with [replica_repair_converges]: one pass reaches the canonical state, every later pass stays in it. *)
Lemma looks_only_reads c : looks_only c = true -> reads_only c = true.
Proof. destruct c; cbn; auto. Qed.

Theorem replica_fixed_point cfg env h ns mem w :
  w_host w = h -> observed_as (w_srv w) false ns -> replica_ok (re_master env) (w_srv w) ->
  w_srv (wworld (wrun (repair_slave_node cfg env h ns mem) w)) = w_srv w.
Proof.
  intros Hh (Hping & Hro & Hoff & Hcasc & Hmaster & Hslave) (Kro & c & Kc & Ksrc & Kio & Ksql).
  apply wrun_reads. eapply allcalls_impl; [intros s c0; apply looks_only_reads|].
  unfold status_of in Hslave. rewrite Kc in Hslave, Hmaster.
  eapply converged_replica_left_alone; [rewrite Hro; exact Kro | exact Hmaster | exact Hcasc | exact Hslave | | | ]; cbn; assumption.
Qed.

Theorem replica_repair_twice cfg env h ns mem w ns2 mem2 :
  w_host w = h -> h <> re_master env -> observed_as (w_srv w) false ns -> no_repl_error (w_srv w) -> rm_repair mem = [] ->
  let w1 := wworld (wrun (repair_slave_node cfg env h ns mem) w) in
  observed_as (w_srv w1) false ns2 ->
  replica_ok (re_master env) (w_srv w1) /\
  w_srv (wworld (wrun (repair_slave_node cfg env h ns2 mem2) w1)) = w_srv w1.
Proof.
  intros Hh Hne Hobs Herr Hmem w1 Hobs2.
  assert (Hh1 : w_host w1 = h) by (unfold w1; rewrite wrun_host; exact Hh).
  destruct (replica_repair_converges cfg env h ns mem w Hh Hne Hobs Herr Hmem) as [_ Hok]. fold w1 in Hok.
  split; [exact Hok|]. apply replica_fixed_point; assumption.
Qed.
