(* C16 "cascade replicas are never counted towards quorum": the manager's own quorum (checkQuorum) is a function of the
   entries of the HA hosts alone. *)
From Coq Require Import ZArith NArith Bool List Lia.
From Mysync Require Import Gtid.Interval Gtid.GtidSet Base.Prog Procs.ActiveNodes Procs.MgrQuorum.
Import ListNotations.
Open Scope Z_scope.

Lemma quorum_counts_ext ha : forall db dcs db' dcs' w v,
  (forall h, In h ha -> assoc h db = assoc h db' /\ assoc h dcs = assoc h dcs') ->
  quorum_counts ha db dcs w v = quorum_counts ha db' dcs' w v.
Proof.
  induction ha as [|h r IH]; intros db dcs db' dcs' w v H; [reflexivity|]. cbn [quorum_counts].
  destruct (H h (or_introl eq_refl)) as [E1 E2]. rewrite <- E1, <- E2.
  destruct (assoc h db) as [sdb|]; [|reflexivity]. destruct (assoc h dcs) as [sd|]; [|reflexivity].
  destruct (ns_ping_ok sd); apply IH; intros h' Hin; apply H; right; exact Hin.
Qed.

(* whatever the two views say about hosts that are not HA hosts (cascade replicas, strangers) has no influence *)
Theorem manager_quorum_ignores_non_ha ha db dcs db' dcs' :
  (forall h, In h ha -> assoc h db = assoc h db' /\ assoc h dcs = assoc h dcs') ->
  manager_lost_quorum ha db dcs = manager_lost_quorum ha db' dcs'.
Proof. intros H. unfold manager_lost_quorum. rewrite (quorum_counts_ext ha db dcs db' dcs' 0 0 H). reflexivity. Qed.

Lemma quorum_counts_bounds ha : forall db dcs w v, 0 <= v <= w ->
  let '(w', v') := quorum_counts ha db dcs w v in 0 <= v' <= w' /\ w' <= w + Z.of_nat (length ha).
Proof.
  induction ha as [|h r IH]; intros db dcs w v Hb; cbn [quorum_counts length]; [lia|].
  destruct (assoc h db) as [sdb|]; [|lia]. destruct (assoc h dcs) as [sd|]; [|lia].
  destruct (ns_ping_ok sd).
  - destruct (ns_ping_ok sdb).
    + specialize (IH db dcs (w + 1) (v + 1) ltac:(lia)). destruct (quorum_counts r db dcs (w + 1) (v + 1)). lia.
    + specialize (IH db dcs (w + 1) v ltac:(lia)). destruct (quorum_counts r db dcs (w + 1) v). lia.
  - specialize (IH db dcs w v Hb). destruct (quorum_counts r db dcs w v). lia.
Qed.

(* the counts never exceed the number of HA hosts: no other host can add to them *)
Theorem manager_quorum_counts_at_most_ha ha db dcs :
  let '(w, v) := quorum_counts ha db dcs 0 0 in 0 <= v <= w /\ w <= Z.of_nat (length ha).
Proof. pose proof (quorum_counts_bounds ha db dcs 0 0 ltac:(lia)) as H. destruct (quorum_counts ha db dcs 0 0). lia. Qed.

(* ---- the HA counts of util.go (quorum of alive replicas in the list, "every other HA node still replicates", the
   dubious hosts): an entry that says "cascade replica" contributes nothing to any of them *)
From Mysync Require Import Base.Config Procs.NodeOps Procs.Switchover Procs.Repair Procs.Manager.

Lemma cascade_not_counted_within h nodes cs ns :
  assoc h cs = Some ns -> ns_is_cascade ns = true ->
  count_alive_ha_slaves_within (h :: nodes) cs = count_alive_ha_slaves_within nodes cs.
Proof.
  intros Ha Hc. unfold count_alive_ha_slaves_within. cbn [filter]. rewrite Ha, Hc. rewrite andb_false_r. reflexivity.
Qed.
Lemma cascade_not_counted_ha h ns cs : ns_is_cascade ns = true -> count_ha_nodes ((h, ns) :: cs) = count_ha_nodes cs.
Proof. intros Hc. unfold count_ha_nodes. cbn [filter]. rewrite Hc. reflexivity. Qed.
Lemma cascade_not_counted_running h ns cs : ns_is_cascade ns = true -> count_running_ha_slaves ((h, ns) :: cs) = count_running_ha_slaves cs.
Proof. intros Hc. unfold count_running_ha_slaves. cbn [filter]. rewrite Hc. rewrite andb_false_r. reflexivity. Qed.
Lemma cascade_not_dubious h ns cs : ns_is_cascade ns = true -> dubious_ha_hosts ((h, ns) :: cs) = dubious_ha_hosts cs.
Proof. intros Hc. unfold dubious_ha_hosts. cbn [filter]. rewrite Hc. rewrite andb_false_r. reflexivity. Qed.

Theorem cascade_entries_contribute_nothing h ns cs nodes :
  ns_is_cascade ns = true ->
  count_ha_nodes ((h, ns) :: cs) = count_ha_nodes cs /\
  count_running_ha_slaves ((h, ns) :: cs) = count_running_ha_slaves cs /\
  dubious_ha_hosts ((h, ns) :: cs) = dubious_ha_hosts cs /\
  count_alive_ha_slaves_within (h :: nodes) ((h, ns) :: cs) = count_alive_ha_slaves_within nodes ((h, ns) :: cs).
Proof.
  intros Hc. split; [apply cascade_not_counted_ha; exact Hc|]. split; [apply cascade_not_counted_running; exact Hc|].
  split; [apply cascade_not_dubious; exact Hc|]. apply (cascade_not_counted_within h nodes _ ns); [|exact Hc].
  cbn [assoc]. rewrite N.eqb_refl. reflexivity.
Qed.

(* C05, the quorum gate: a replica that did not answer the manager's ping - refused, timed out or answered with a "dubious"
   error, whatever its own health record says - contributes nothing to the count of alive replicas in the published list *)
Lemma unreachable_not_counted_within h nodes cs ns :
  assoc h cs = Some ns -> ns_ping_ok ns = false ->
  count_alive_ha_slaves_within (h :: nodes) cs = count_alive_ha_slaves_within nodes cs.
Proof.
  intros Ha Hp. unfold count_alive_ha_slaves_within. cbn [filter]. rewrite Ha, Hp. reflexivity.
Qed.
(* ... nor does a host the manager has no state for, or one without a replication channel (a master) *)
Lemma unknown_not_counted_within h nodes cs :
  assoc h cs = None -> count_alive_ha_slaves_within (h :: nodes) cs = count_alive_ha_slaves_within nodes cs.
Proof. intros Ha. unfold count_alive_ha_slaves_within. cbn [filter]. rewrite Ha. reflexivity. Qed.
Lemma channelless_not_counted_within h nodes cs ns :
  assoc h cs = Some ns -> ns_slave ns = None ->
  count_alive_ha_slaves_within (h :: nodes) cs = count_alive_ha_slaves_within nodes cs.
Proof.
  intros Ha Hs. unfold count_alive_ha_slaves_within. cbn [filter]. rewrite Ha, Hs. rewrite andb_false_r. reflexivity.
Qed.
(* the count never exceeds the length of the list *)
Lemma filter_len_le {A} (f : A -> bool) (l : list A) : (length (filter f l) <= length l)%nat.
Proof. induction l as [|a l IH]; cbn [filter length]; [lia|]. destruct (f a); cbn [length]; lia. Qed.
Lemma count_within_le nodes cs : (0 <= count_alive_ha_slaves_within nodes cs <= Z.of_nat (length nodes))%Z.
Proof.
  unfold count_alive_ha_slaves_within.
  match goal with |- context [filter ?f nodes] => pose proof (filter_len_le f nodes) end. lia.
Qed.
Lemma unknown_or_channelless_not_counted h nodes cs :
  (assoc h cs = None \/ exists ns, assoc h cs = Some ns /\ ns_slave ns = None) ->
  count_alive_ha_slaves_within (h :: nodes) cs = count_alive_ha_slaves_within nodes cs.
Proof.
  intros [H | [ns [H1 H2]]]; [exact (unknown_not_counted_within h nodes cs H) | exact (channelless_not_counted_within h nodes cs ns H1 H2)].
Qed.
