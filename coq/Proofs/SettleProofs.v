(* Two per-procedure guarantees behind convergence clauses whose end-to-end form is decided on the implementation:
   C10 - adjustSemiSyncOnMaster really brings the master's side to the requested setting when it reports success;
   C11 - the repair of a stale master always goes on to mark it, however turning it into a replica went. *)
From Coq Require Import ZArith NArith Bool List Lia.
From Mysync Require Import Gtid.Interval Gtid.GtidSet Base.Prog Base.ProgFacts Base.Config
  Procs.NodeOps Procs.Lost Procs.ActiveNodes Procs.Switchover Procs.Repair.
Import ListNotations.
Open Scope Z_scope.

(* ---- C10: the master's semi-sync side after adjustSemiSyncOnMaster ---- *)
Definition ok_call (c : call) (e : event) : Prop := ev_call e = c /\ ev_resp e = ROk.
Theorem adjust_master_brings_setting master ms w tr : 0 < w ->
  runs (adjust_semi_sync_on_master master ms w) tr (Done None) ->
  exists en sl cur, ns_semi ms = Some (en, sl, cur) /\
    (cur = w \/ exists e, In e tr /\ ok_call (Sql master (SSetWaitCount w)) e) /\
    (en = true \/ exists e, In e tr /\ ok_call (Sql master SSemiSetMaster) e).
Proof.
  intros Hw. unfold adjust_semi_sync_on_master. destruct (ns_semi ms) as [[[en sl] cur]|]; [|cbn; intros [_ K]; discriminate K].
  assert (w =? 0 = false) as -> by (apply Z.eqb_neq; lia).
  intros H. exists en, sl, cur. split; [reflexivity|].
  destruct (runs_bind_inv _ _ _ _ H) as [(t1 & t2 & e1 & R1 & R2 & ->)|(s & _ & K)]; [|discriminate K].
  destruct e1 as [x|]; [cbn in R2; destruct R2 as [_ K]; discriminate K|].
  split.
  - destruct (cur =? w) eqn:E; cbn [negb] in R1.
    + left. apply Z.eqb_eq. exact E.
    + right. unfold exec_ in R1. cbn [runs] in R1. destruct t1 as [|e t1']; [destruct R1|]. destruct R1 as (_ & Ec & R1).
      exists e. split; [left; reflexivity|]. split; [exact Ec|].
      destruct (ev_resp e); cbn in R1; destruct R1 as [_ K]; try discriminate K. reflexivity.
  - destruct en; cbn [negb] in R2; [left; reflexivity|]. right.
    unfold exec_ in R2. cbn [runs] in R2. destruct t2 as [|e t2']; [destruct R2|]. destruct R2 as (_ & Ec & R2).
    exists e. split; [apply in_or_app; right; left; reflexivity|]. split; [exact Ec|].
    destruct (ev_resp e); cbn in R2; destruct R2 as [_ K]; try discriminate K. reflexivity.
Qed.

(* ---- C11: a stale master is always marked, however turning it into a replica went ---- *)
Theorem stale_master_marking_attempted cfg env h ns mem tr o :
  ns_is_master ns = true -> h <> re_master env ->
  runs (repair_slave_node cfg env h ns mem) tr o -> (exists a, o = Done a) ->
  exists e, In e tr /\ ev_site e = 20082 /\ ev_call e = DcsGet PActiveNodes.
Proof.
  intros Him Hne H [a ->]. unfold repair_slave_node in H. rewrite Him in H.
  destruct (runs_bind_inv _ _ _ _ H) as [(t1 & t2 & u1 & _ & R2 & ->)|(s & _ & K)]; [|discriminate K].
  destruct (runs_bind_inv _ _ _ _ R2) as [(t3 & t4 & u2 & _ & R3 & ->)|(s & _ & K)]; [|discriminate K].
  destruct (runs_bind_inv _ _ _ _ R3) as [(t5 & t6 & u3 & _ & R4 & ->)|(s & _ & K)]; [|discriminate K].
  destruct (runs_bind_inv _ _ _ _ R4) as [(t7 & t8 & u4 & R5 & _ & ->)|(s & _ & K)]; [|discriminate K].
  unfold set_recovery, get_active_nodes in R5. cbn [bind runs] in R5. destruct t7 as [|e t7']; [destruct R5|]. destruct R5 as (Es & Ec & _).
  exists e. split; [|split; assumption].
  apply in_or_app; right. apply in_or_app; right. apply in_or_app; right. apply in_or_app; left. left. reflexivity.
Qed.
