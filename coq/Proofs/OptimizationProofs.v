From Coq Require Import ZArith NArith Bool List Lia.
From Mysync Require Import Gtid.Interval Gtid.GtidSet Pure.Desirable Base.Prog Base.ProgFacts Base.Hoare Base.Config Procs.NodeOps Procs.ActiveNodes Procs.Switchover Procs.Optimization.
Import ListNotations.
Open Scope Z_scope.

(* ---------------------------------------------------------------- the monitor:
   a host is RESTORED once SET innodb_flush_log_at_trx_commit = fst mrs and then
   SET sync_binlog = snd mrs both returned OK on it, with no other attempt to
   change either setting on that host in between or afterwards *)
Record ost := { o_half : host -> bool; o_rest : host -> bool }.
Definition upd (f : host -> bool) (h : host) (v : bool) : host -> bool := fun x => if N.eqb x h then v else f x.
Definition ost0 : ost := {| o_half := fun _ => false; o_rest := fun _ => false |}.

Definition ostep (mrs : Z * Z) (st : ost) (c : call) (r : resp) : ost :=
  match c with
  | Sql h (SSetFlush v) =>
      {| o_half := upd (o_half st) h (match r with ROk => v =? fst mrs | _ => false end); o_rest := upd (o_rest st) h false |}
  | Sql h (SSetSyncBinlog v) =>
      {| o_half := o_half st; o_rest := upd (o_rest st) h (match r with ROk => (v =? snd mrs) && o_half st h | _ => false end) |}
  | _ => st
  end.

(* deregistering a cluster host is allowed only when it is RESTORED *)
Definition ookc (cluster : list host) (st : ost) (c : call) : Prop :=
  match c with
  | DcsDelete (POptNode h) => o_rest st h = true \/ mem_host h cluster = false
  | _ => True
  end.

Lemma upd_same f h v : upd f h v h = v.
Proof. unfold upd. rewrite N.eqb_refl. reflexivity. Qed.
Lemma upd_other f h v x : x <> h -> upd f h v x = f x.
Proof. unfold upd. intros H. destruct (N.eqb_spec x h); [contradiction|reflexivity]. Qed.

Section Mon.
Variable env : opt_env.
Variable mrs : Z * Z.
Notation cluster := (ov_cluster env).
Notation WP := (wp ost (ostep mrs) (ookc cluster)).

Lemma wp_exec_other {A} st s h stm (k : oerr -> prog A) Q :
  (forall v, stm <> SSetFlush v) -> (forall v, stm <> SSetSyncBinlog v) ->
  (forall e, WP st (k e) Q) -> WP st (bind (exec_ s h stm) k) Q.
Proof.
  intros H1 H2 Hk. unfold exec_. cbn [bind wp]. split; [exact I|]. intros r.
  assert (ostep mrs st (Sql h stm) r = st) as ->.
  { destruct stm; try reflexivity; [exfalso; eapply H1; reflexivity|exfalso; eapply H2; reflexivity]. }
  destruct r; cbn [bind]; apply Hk.
Qed.

(* SetReplicationSettings(mrs) on h *)
Lemma wp_set_settings s1 s2 h st :
  WP st (set_repl_settings s1 s2 h mrs)
     (fun st' e => (e = None -> o_rest st' h = true) /\ (forall x, x <> h -> o_rest st' x = o_rest st x)).
Proof.
  unfold set_repl_settings, exec_. cbn [bind wp ookc]. split; [exact I|]. intros r.
  destruct r; cbn [bind wp ookc ostep o_half o_rest];
    try (split; [discriminate|intros x Hx; apply upd_other; exact Hx]).
  (* ROk *)
  split; [exact I|]. intros r2.
  destruct r2; cbn [bind wp ostep o_half o_rest];
    try (split; [discriminate|intros x Hx; rewrite !upd_other by exact Hx; reflexivity]).
  split.
  - intros _. rewrite upd_same, upd_same, !Z.eqb_refl. reflexivity.
  - intros x Hx. rewrite !upd_other by exact Hx. reflexivity.
Qed.

(* any other attempt to change the settings of h (OptimizeReplication) touches h only *)
Lemma wp_optimize h st :
  WP st (optimize_replication h) (fun st' _ => forall x, x <> h -> o_rest st' x = o_rest st x).
Proof.
  unfold optimize_replication, exec_. cbn [bind wp ookc]. split; [exact I|]. intros r.
  destruct r; cbn [bind wp ookc ostep o_half o_rest]; try (intros x Hx; apply upd_other; exact Hx).
  split; [exact I|]. intros r2.
  destruct r2; cbn [bind wp ostep o_half o_rest]; intros x Hx; rewrite !upd_other by exact Hx; reflexivity.
Qed.

Lemma wp_stop_nodes : forall l st,
  WP st (stop_nodes env l mrs)
     (fun st' e => (e = None -> forall h, In h l -> mem_host h cluster = true -> o_rest st' h = true) /\
                   (forall x, ~ In x l -> o_rest st' x = o_rest st x)).
Proof.
  induction l as [|h rest IH]; intros st; cbn [stop_nodes].
  - cbn [wp]. split; [intros _ h []|reflexivity].
  - destruct (mem_host h cluster) eqn:Em.
    + apply wp_bind. eapply wp_conseq; [|apply wp_set_settings].
      intros st1 e [H1 H2]. cbn beta. destruct e as [x|].
      * cbn [wp]. split; [discriminate|]. intros y Hy. apply H2. intros ->. apply Hy. left. reflexivity.
      * eapply wp_conseq; [|apply IH]. cbn beta. intros st2 e [K1 K2]. split.
        -- intros He y [<-|Hy] Hc.
           ++ destruct (in_dec N.eq_dec h rest) as [Hi|Hn]; [apply K1; auto|]. rewrite K2 by exact Hn. apply H1. reflexivity.
           ++ apply K1; auto.
        -- intros y Hy. rewrite K2 by (intros Hi; apply Hy; right; exact Hi). apply H2. intros ->. apply Hy. left. reflexivity.
    + eapply wp_conseq; [|apply IH]. cbn beta. intros st2 e [K1 K2]. split.
      * intros He y [<-|Hy] Hc; [congruence|apply K1; auto].
      * intros y Hy. apply K2. intros Hi. apply Hy. right. exact Hi.
Qed.

Lemma wp_delete_hosts : forall l st (Q : ost -> oerr -> Prop),
  (forall h, In h l -> o_rest st h = true \/ mem_host h cluster = false) -> (forall e, Q st e) ->
  WP st (delete_hosts l) Q.
Proof.
  induction l as [|h rest IH]; intros st Q Hl HQ; cbn [delete_hosts]; [cbn [wp]; apply HQ|].
  unfold opt_delete_host. cbn [bind wp ookc ostep]. split; [apply Hl; left; reflexivity|].
  intros r. destruct r as [| | | | | | | | | | | | | e |]; cbn [bind]; try (cbn [wp]; apply HQ);
    try (apply IH; [intros y Hy; apply Hl; right; exact Hy|exact HQ]).
  destruct e; cbn [bind wp]; try apply HQ. apply IH; [intros y Hy; apply Hl; right; exact Hy|exact HQ].
Qed.

Lemma wp_disable_nodes l st :
  WP st (disable_nodes env l mrs)
     (fun st' e => (e = None -> forall h, In h l -> mem_host h cluster = true -> o_rest st' h = true) /\
                   (forall x, ~ In x l -> o_rest st' x = o_rest st x)).
Proof.
  unfold disable_nodes. destruct l as [|h0 l0]; [cbn [wp]; split; [intros _ h []|reflexivity]|].
  set (l := h0 :: l0). apply wp_bind. eapply wp_conseq; [|apply wp_stop_nodes]. cbn beta.
  intros st1 e [H1 H2]. destruct e as [x|]; [cbn [wp]; split; [discriminate|exact H2]|].
  apply wp_delete_hosts.
  - intros h Hh. destruct (mem_host h cluster) eqn:Em; [left; apply H1; auto|right; reflexivity].
  - intros e. split; [intros _; apply H1; reflexivity|exact H2].
Qed.
End Mon.

(* ---------------------------------------------------------------- one sync, plan given *)
(* the single host a sync may leave (or put) in the relaxed state *)
Definition kept (p : opt_plan) : option host :=
  match op_optimizing p with
  | h :: _ => Some h
  | [] => match op_disabled p with d :: _ => Some d | [] => None end
  end.
Definition to_restore (p : opt_plan) : list host := op_optimized p ++ op_malf p ++ tl (op_optimizing p).

Section Mon2.
Variable env : opt_env.
Variable mrs : Z * Z.
Notation cluster := (ov_cluster env).
Notation WP := (wp ost (ostep mrs) (ookc cluster)).

Lemma wp_sync_node_options h st :
  WP st (sync_node_options env h) (fun st' _ => forall x, x <> h -> o_rest st' x = o_rest st x).
Proof.
  unfold sync_node_options. destruct (negb (mem_host h cluster)); [exact I|].
  unfold repl_settings. cbn [bind wp ookc ostep]. split; [exact I|]. intros r.
  destruct r; cbn [bind snd fst wp]; try (intros; reflexivity).
  destruct (can_be_optimized _); [apply wp_optimize|cbn [wp]; intros; reflexivity].
Qed.

Lemma wp_balance p st :
  WP st (balance env mrs p)
     (fun st' e => (e = None -> forall h, In h (tl (op_optimizing p)) -> Some h <> kept p -> mem_host h cluster = true -> o_rest st' h = true) /\
                   (forall x, ~ In x (tl (op_optimizing p)) -> Some x <> kept p -> o_rest st' x = o_rest st x)).
Proof.
  unfold balance, kept. destruct (op_optimizing p) as [|h [|h2 rest]] eqn:Eo; cbn [tl].
  - destruct (op_disabled p) as [|d ds].
    + cbn [wp]. split; [intros _ h []|reflexivity].
    + destruct (mem_host d cluster); [|exact I]. eapply wp_conseq; [|apply wp_optimize]. cbn beta.
      intros st1 e H. split; [intros _ h []|]. intros x _ Hx. apply H. congruence.
  - eapply wp_conseq; [|apply wp_sync_node_options]. cbn beta. intros st1 e H. split; [intros _ x []|].
    intros x _ Hx. apply H. congruence.
  - apply wp_bind. eapply wp_conseq; [|apply wp_stop_nodes]. cbn beta. intros st1 e [H1 H2].
    destruct e as [x|]; [cbn [wp]; split; [discriminate|intros y Hy _; apply H2; exact Hy]|].
    eapply wp_conseq; [|apply wp_sync_node_options]. cbn beta. intros st2 e K. split.
    + intros _ y Hy Hk Hc. rewrite K by congruence. apply H1; auto.
    + intros y Hy Hk. rewrite K by congruence. apply H2. exact Hy.
Qed.

(* THE SYNC, plan given: every deregistration is of a restored (or foreign) host, and
   after a successful sync every cluster host that was to be switched off - converged,
   without lag, master, or a surplus optimising host - is restored, except the one kept host *)
Theorem wp_sync_act p st :
  WP st (sync_act env mrs p)
     (fun st' e => e = None -> forall h, In h (to_restore p) -> Some h <> kept p -> mem_host h cluster = true -> o_rest st' h = true).
Proof.
  unfold sync_act, to_restore. apply wp_bind. eapply wp_conseq; [|apply wp_disable_nodes]. cbn beta.
  intros st1 e [H1 H2]. destruct e as [x|]; [cbn [wp]; discriminate|].
  eapply wp_conseq; [|apply wp_balance]. cbn beta. intros st2 e [K1 K2] He h Hh Hk Hc.
  rewrite app_assoc in Hh. apply in_app_or in Hh.
  destruct (in_dec N.eq_dec h (tl (op_optimizing p))) as [Hi|Hn]; [apply K1; auto|].
  destruct Hh as [Hh|Hh]; [|contradiction]. rewrite K2 by assumption. apply H1; auto.
Qed.
End Mon2.

(* ---------------------------------------------------------------- site level: who may be relaxed *)
Definition opt_site (s : site) : Prop := s = 11148 \/ s = 11152.
Definition relax_ok (p : opt_plan) (s : site) (c : call) : Prop :=
  opt_site s -> exists h st, c = Sql h st /\ kept p = Some h.

Lemma ac_set_settings (P : site -> call -> Prop) s1 s2 h rs : P s1 (Sql h (SSetFlush (fst rs))) -> P s2 (Sql h (SSetSyncBinlog (snd rs))) ->
  allcalls P (set_repl_settings s1 s2 h rs).
Proof.
  intros H1 H2. unfold set_repl_settings, exec_. cbn [bind allcalls]. split; [exact H1|]. intros r.
  destruct r; cbn [bind allcalls]; try exact I. split; [exact H2|]. intros r2. destruct r2; exact I.
Qed.

Lemma ac_stop_nodes (P : site -> call -> Prop) env l rs : (forall h, P 11195 (Sql h (SSetFlush (fst rs)))) -> (forall h, P 11199 (Sql h (SSetSyncBinlog (snd rs)))) ->
  allcalls P (stop_nodes env l rs).
Proof.
  intros H1 H2. induction l as [|h rest IH]; cbn [stop_nodes]; [exact I|].
  destruct (mem_host h (ov_cluster env)); [|exact IH].
  apply allcalls_bind; [apply ac_set_settings; auto|]. intros [e|]; [exact I|exact IH].
Qed.

Lemma ac_delete_hosts (P : site -> call -> Prop) l : (forall h, P 50125 (DcsDelete (POptNode h))) -> allcalls P (delete_hosts l).
Proof.
  intros H. induction l as [|h rest IH]; cbn [delete_hosts]; [exact I|].
  unfold opt_delete_host. cbn [bind allcalls]. split; [apply H|]. intros r.
  destruct r as [| | | | | | | | | | | | | e |]; cbn [bind]; try exact I; try exact IH. destruct e; cbn [bind]; try exact I; exact IH.
Qed.

Lemma ac_optimize (P : site -> call -> Prop) h : P 11148 (Sql h (SSetFlush 2)) -> P 11152 (Sql h (SSetSyncBinlog 1000)) -> allcalls P (optimize_replication h).
Proof.
  intros H1 H2. unfold optimize_replication, exec_. cbn [bind allcalls]. split; [exact H1|]. intros r.
  destruct r; cbn [bind allcalls]; try exact I. split; [exact H2|]. intros r2. destruct r2; exact I.
Qed.

Ltac not_opt := let H := fresh in intros H; exfalso; destruct H as [H|H]; discriminate H.

Theorem sync_act_relaxes_only_kept env mrs p : allcalls (relax_ok p) (sync_act env mrs p).
Proof.
  unfold sync_act. apply allcalls_bind.
  - unfold disable_nodes. destruct (op_optimized p ++ op_malf p) as [|h0 l0]; [exact I|].
    apply allcalls_bind; [apply ac_stop_nodes; intros; not_opt|]. intros [e|]; [exact I|]. apply ac_delete_hosts. intros; not_opt.
  - intros [e|]; [exact I|]. unfold balance, kept.
    assert (SN : forall h, op_optimizing p <> [] -> hd 0%N (op_optimizing p) = h -> allcalls (relax_ok p) (sync_node_options env h)).
    { intros h Hne Hh. unfold sync_node_options. destruct (negb _); [exact I|]. unfold repl_settings. cbn [bind allcalls]. split; [not_opt|].
      intros r. destruct r; cbn [bind snd fst]; try exact I. destruct (can_be_optimized _); [|exact I].
      apply ac_optimize; intros _; exists h; eexists; (split; [reflexivity|]); unfold kept; destruct (op_optimizing p); first [contradiction|cbn in Hh; congruence]. }
    destruct (op_optimizing p) as [|h [|h2 rest]] eqn:Eo.
    + destruct (op_disabled p) as [|d ds] eqn:Ed; [exact I|]. destruct (mem_host d _); [|exact I].
      apply ac_optimize; intros _; exists d; eexists; (split; [reflexivity|]); unfold kept; rewrite Eo, Ed; reflexivity.
    + apply SN; [discriminate|reflexivity].
    + apply allcalls_bind; [apply ac_stop_nodes; intros; not_opt|]. intros [e|]; [exact I|]. apply SN; [discriminate|reflexivity].
Qed.

(* ---------------------------------------------------------------- classification (pure) *)
Lemma classify_nolag env mrs en ns : opt_lag ns = None -> classify env mrs en (Some ns) = OcMalf.
Proof. intros H. unfold classify. rewrite H. reflexivity. Qed.
Lemma classify_unknown_host env mrs en : classify env mrs en None = OcMalf.
Proof. reflexivity. Qed.
Lemma classify_master env mrs en ns : ns_is_master ns = true -> classify env mrs en (Some ns) = OcMalf.
Proof. intros H. unfold classify. destruct (opt_lag ns); [rewrite H|]; reflexivity. Qed.
Lemma classify_converged env mrs en ns lag : ns_is_master ns = false -> opt_lag ns = Some lag ->
  (lag < ov_low env \/ (en = false /\ lag < ov_high env)) -> ov_low env <= ov_high env ->
  classify env mrs en (Some ns) = OcOptimized \/ classify env mrs en (Some ns) = OcMalf.
Proof.
  intros Hm Hl Hc Hlh. unfold classify. rewrite Hl, Hm.
  destruct (ns_repl_settings ns) as [rs|]; [left|right; reflexivity].
  destruct Hc as [Hc|[-> Hc]].
  - assert (lag <? ov_low env = true) as -> by (apply Z.ltb_lt; exact Hc).
    assert (lag <? ov_high env = true) as -> by (apply Z.ltb_lt; lia). destruct en; reflexivity.
  - assert (lag <? ov_high env = true) as -> by (apply Z.ltb_lt; exact Hc). reflexivity.
Qed.
Lemma classify_disabled env mrs en ons : classify env mrs en ons = OcDisabled ->
  en = false /\ exists ns rs, ons = Some ns /\ ns_repl_settings ns = Some rs /\ rs_eqb rs mrs = true.
Proof.
  unfold classify. destruct ons as [ns|]; [|discriminate]. destruct (opt_lag ns); [|discriminate].
  destruct (ns_is_master ns); [discriminate|]. destruct (ns_repl_settings ns) as [rs|] eqn:Ers; [|discriminate].
  destruct (_ || _); [discriminate|]. destruct en; [discriminate|]. destruct (rs_eqb rs mrs) eqn:E; [|discriminate].
  intros _. split; [reflexivity|]. exists ns, rs. auto.
Qed.

(* ---------------------------------------------------------------- the read phase *)
Definition readcall (c : call) : Prop :=
  match c with DcsGet _ | DcsChildren _ | Sql _ SReplSettings => True | _ => False end.
Definition observed (tr : trace) (h : host) (en : bool) : Prop :=
  exists e, In e tr /\ ev_call e = DcsGet (POptNode h) /\ ev_resp e = RVal (VOpt en).
Definition class_list (p : opt_plan) (c : opt_class) : list host :=
  match c with OcMalf => op_malf p | OcOptimized => op_optimized p | OcOptimizing => op_optimizing p | OcDisabled => op_disabled p end.
Definition plan_incl (p q : opt_plan) : Prop := forall c, incl (class_list p c) (class_list q c).

Lemma plan_incl_refl p : plan_incl p p. Proof. intros c x H; exact H. Qed.
Lemma plan_incl_trans p q r : plan_incl p q -> plan_incl q r -> plan_incl p r.
Proof. intros H1 H2 c x H. apply H2, H1, H. Qed.
Lemma plan_add_incl p h c : plan_incl p (plan_add p h c).
Proof. intros c' x H. destruct c, c'; cbn in *; auto; apply in_or_app; left; exact H. Qed.
Lemma plan_add_in p h c : In h (class_list (plan_add p h c) c).
Proof. destruct c; cbn; apply in_or_app; right; left; reflexivity. Qed.

Lemma read_states_runs env mrs : forall hosts p0 tr o, runs (read_states env mrs hosts p0) tr o ->
  Forall (fun e => readcall (ev_call e)) tr /\
  forall p, o = Done (RdOk p) ->
    plan_incl p0 p /\ forall h en, observed tr h en -> In h (class_list p (classify env mrs en (assoc h (ov_states env)))).
Proof.
  induction hosts as [|h rest IH]; intros p0 tr o H; cbn [read_states] in H.
  - cbn in H. destruct H as [-> ->]. split; [constructor|]. intros p E. inversion E; subst. split; [apply plan_incl_refl|].
    intros x en (e & [] & _).
  - unfold opt_get_state in H. cbn [bind runs] in H. destruct tr as [|e tr']; [destruct H|]. destruct H as (_ & Ec & H).
    assert (RC : readcall (ev_call e)) by (rewrite Ec; exact I).
    assert (FIN : forall (x : read_res), runs (Ret x) tr' o -> (forall p, x <> RdOk p) ->
              Forall (fun e0 => readcall (ev_call e0)) (e :: tr') /\ forall p, o = Done (RdOk p) -> plan_incl p0 p /\
                forall h0 en, observed (e :: tr') h0 en -> In h0 (class_list p (classify env mrs en (assoc h0 (ov_states env))))).
    { intros x Hx Hne. cbn in Hx. destruct Hx as [-> ->]. split; [constructor; [exact RC|constructor]|]. intros p E. inversion E. exfalso. eapply Hne; eauto. }
    assert (SKIP : runs (read_states env mrs rest p0) tr' o -> (forall en, ev_resp e <> RVal (VOpt en)) ->
              Forall (fun e0 => readcall (ev_call e0)) (e :: tr') /\ forall p, o = Done (RdOk p) -> plan_incl p0 p /\
                forall h0 en, observed (e :: tr') h0 en -> In h0 (class_list p (classify env mrs en (assoc h0 (ov_states env))))).
    { intros Hr Hne. destruct (IH _ _ _ Hr) as [F K]. split; [constructor; assumption|]. intros p E. destruct (K p E) as [K1 K2]. split; [exact K1|].
      intros h0 en (e0 & [<-|Hin] & C0 & R0); [exfalso; eapply Hne; eauto|]. apply K2. exists e0. auto. }
    destruct (ev_resp e) as [er| | | | | | | | | | |v| | |] eqn:Er; cbn [bind] in H;
      try (apply (FIN (RdErr EOther)); [exact H|discriminate]).
    + (* RErr *) destruct er; cbn [bind] in H; try (apply (FIN (RdErr EOther)); [exact H|discriminate]);
        try (match type of H with runs (Ret (RdErr ?x)) _ _ => apply (FIN (RdErr x)); [exact H|discriminate] end).
      apply SKIP; [exact H|]. intros en; discriminate.
    + (* RVal *) destruct v; cbn [bind] in H; try (apply (FIN (RdErr EOther)); [exact H|discriminate]).
      destruct (IH _ _ _ H) as [F K]. split; [constructor; assumption|]. intros p E. destruct (K p E) as [K1 K2].
      split; [eapply plan_incl_trans; [apply plan_add_incl|exact K1]|].
      intros h0 en (e0 & [<-|Hin] & C0 & R0).
      * rewrite Ec in C0. inversion C0; subst h0. rewrite Er in R0. inversion R0; subst en.
        apply (K1 _ h). apply plan_add_in.
      * apply K2. exists e0. auto.
Qed.

(* ---------------------------------------------------------------- the whole sync *)
Definition plan_sound (env : opt_env) (mrs : Z * Z) (tr : trace) (p : opt_plan) : Prop :=
  forall h en, observed tr h en -> In h (class_list p (classify env mrs en (assoc h (ov_states env)))).

Lemma observed_cons_other e tr h en : (forall p, ev_call e <> DcsGet p) -> observed (e :: tr) h en -> observed tr h en.
Proof. intros Hne (e0 & [<-|Hin] & C & R); [exfalso; eapply Hne; eauto|exists e0; auto]. Qed.

Lemma sync_with_runs env mrs tr o : runs (sync_with env mrs) tr o ->
  (Forall (fun e => readcall (ev_call e)) tr /\ o <> Done None) \/
  exists p tr1 tr2, tr = tr1 ++ tr2 /\ Forall (fun e => readcall (ev_call e)) tr1 /\ plan_sound env mrs tr1 p /\ runs (sync_act env mrs p) tr2 o.
Proof.
  unfold sync_with, dcs_children_. cbn [bind runs]. destruct tr as [|e tr']; [intros []|]. intros (_ & Ec & H).
  assert (RC : readcall (ev_call e)) by (rewrite Ec; exact I).
  assert (ERR : forall x, runs (Ret (Some x)) tr' o -> (Forall (fun e => readcall (ev_call e)) (e :: tr') /\ o <> Done None)).
  { intros x Hx. cbn in Hx. destruct Hx as [-> ->]. split; [constructor; [exact RC|constructor]|discriminate]. }
  destruct (ev_resp e) as [er| | | | | | | | | | | |l| |]; cbn [bind snd fst] in H; try (left; eapply ERR; exact H).
  destruct (runs_bind_inv _ _ _ _ H) as [(t1 & t2 & a & R1 & R2 & ->)|(s & R1 & ->)].
  - destruct (read_states_runs env mrs _ _ _ _ R1) as [F K]. destruct a as [p|x].
    + right. exists p, (e :: t1), t2. split; [reflexivity|]. split; [constructor; assumption|]. split; [|exact R2].
      intros h en Ho. apply (proj2 (K p eq_refl)). eapply observed_cons_other; [|exact Ho]. intros q. rewrite Ec. discriminate.
    + left. cbn in R2. destruct R2 as [-> ->]. rewrite app_nil_r. split; [constructor; assumption|discriminate].
  - left. destruct (read_states_runs env mrs _ _ _ _ R1) as [F K]. split; [constructor; assumption|discriminate].
Qed.

(* where the sync learns the master's settings from: this iteration's health record, else the master itself *)
Definition master_seen (env : opt_env) (tr : trace) (mrs : Z * Z) : Prop :=
  (exists ns, assoc (ov_master env) (ov_states env) = Some ns /\ ns_repl_settings ns = Some mrs) \/
  (exists e tr', tr = e :: tr' /\ ev_call e = Sql (ov_master env) SReplSettings /\ ev_resp e = RZ2 (fst mrs) (snd mrs)).

Theorem opt_sync_runs env tr o : runs (opt_sync env) tr o ->
  (Forall (fun e => readcall (ev_call e)) tr /\ o <> Done None) \/
  exists mrs p tr1 tr2, tr = tr1 ++ tr2 /\ Forall (fun e => readcall (ev_call e)) tr1 /\ master_seen env tr mrs /\
    plan_sound env mrs tr1 p /\ runs (sync_act env mrs p) tr2 o.
Proof.
  unfold opt_sync, master_settings.
  destruct (match assoc (ov_master env) (ov_states env) with Some ns => ns_repl_settings ns | None => None end) as [rs|] eqn:Ev.
  - cbn [bind snd fst]. intros H. destruct (sync_with_runs _ _ _ _ H) as [L|(p & t1 & t2 & E & F & P & R)]; [left; exact L|].
    right. exists rs, p, t1, t2. split; [exact E|]. split; [exact F|]. split; [|split; assumption].
    left. destruct (assoc (ov_master env) (ov_states env)) as [ns|]; [|discriminate]. exists ns. auto.
  - destruct (mem_host (ov_master env) (ov_cluster env)).
    + unfold repl_settings. cbn [bind runs]. destruct tr as [|e tr']; [intros []|]. intros (_ & Ec & H).
      assert (RC : readcall (ev_call e)) by (rewrite Ec; exact I).
      destruct (ev_resp e) as [er| | | | | | | |a b| | | | | |] eqn:Er; cbn [bind snd fst] in H;
        try (left; cbn in H; destruct H as [-> ->]; split; [constructor; [exact RC|constructor]|discriminate]).
      destruct (sync_with_runs _ _ _ _ H) as [[L1 L2]|(p & t1 & t2 & E & F & P & R)]; [left; split; [constructor; assumption|exact L2]|].
      right. exists (a, b), p, (e :: t1), t2. split; [rewrite E; reflexivity|]. split; [constructor; assumption|].
      split; [right; exists e, tr'; auto|]. split; [|exact R].
      intros h en Ho. apply P. eapply observed_cons_other; [|exact Ho]. intros q. rewrite Ec. discriminate.
    + cbn. intros [-> ->]. left. split; [constructor|discriminate].
Qed.

(* ---------------------------------------------------------------- call level: who is given settings other than the master's *)
Definition tamper_ok (mrs : Z * Z) (k : option host) (c : call) : Prop :=
  match c with
  | Sql h (SSetFlush v) => v = fst mrs \/ k = Some h
  | Sql h (SSetSyncBinlog v) => v = snd mrs \/ k = Some h
  | _ => True
  end.
Definition no_get (c : call) : Prop := match c with DcsGet _ => False | _ => True end.

Theorem sync_act_tampers_only_kept env mrs p : allcalls (fun _ c => tamper_ok mrs (kept p) c /\ no_get c) (sync_act env mrs p).
Proof.
  unfold sync_act. apply allcalls_bind.
  - unfold disable_nodes. destruct (op_optimized p ++ op_malf p) as [|h0 l0]; [exact I|].
    apply allcalls_bind; [apply ac_stop_nodes; intros; (split; [left; reflexivity|exact I])|]. intros [e|]; [exact I|].
    apply ac_delete_hosts. intros; split; exact I.
  - intros [e|]; [exact I|]. unfold balance.
    assert (SN : forall h, kept p = Some h -> allcalls (fun _ c => tamper_ok mrs (kept p) c /\ no_get c) (sync_node_options env h)).
    { intros h Hk. unfold sync_node_options. destruct (negb _); [exact I|]. unfold repl_settings. cbn [bind allcalls]. split; [split; exact I|].
      intros r. destruct r; cbn [bind snd fst]; try exact I. destruct (can_be_optimized _); [|exact I].
      apply ac_optimize; (split; [right; exact Hk|exact I]). }
    unfold kept in *. destruct (op_optimizing p) as [|h [|h2 rest]] eqn:Eo.
    + destruct (op_disabled p) as [|d ds] eqn:Ed; [exact I|]. destruct (mem_host d _); [|exact I].
      apply ac_optimize; (split; [right; reflexivity|exact I]).
    + apply SN; reflexivity.
    + apply allcalls_bind; [apply ac_stop_nodes; intros; (split; [left; reflexivity|exact I])|]. intros [e|]; [exact I|]. apply SN; reflexivity.
Qed.

Lemma readcall_neutral mrs cluster st c : readcall c -> ookc cluster st c /\ neutral ost (ostep mrs) c.
Proof.
  intros H. split.
  - destruct c; try exact I; try contradiction.
  - intros st' r. destruct c; try reflexivity; try contradiction. destruct s; try reflexivity; contradiction.
Qed.

Lemma readcall_tamper mrs k c : readcall c -> tamper_ok mrs k c.
Proof. destruct c; try (intros; exact I). destruct s; try (intros; exact I); intros []. Qed.

(* T1: in every run of Sync a registered cluster host is deregistered only when RESTORED *)
Theorem sync_drops_only_restored env tr o : runs (opt_sync env) tr o ->
  exists mrs, (Forall (fun e => readcall (ev_call e)) tr \/ master_seen env tr mrs) /\
              trace_ok ost (ostep mrs) (ookc (ov_cluster env)) ost0 tr.
Proof.
  intros H. destruct (opt_sync_runs _ _ _ H) as [[F _]|(mrs & p & t1 & t2 & -> & F & M & P & R)].
  - exists (0, 0). split; [left; exact F|]. rewrite <- (app_nil_r tr). apply trace_ok_neutral_app; [|exact I].
    eapply Forall_impl; [|exact F]. intros e He. apply readcall_neutral. exact He.
  - exists mrs. split; [right; exact M|]. apply trace_ok_neutral_app.
    + eapply Forall_impl; [|exact F]. intros e He. apply readcall_neutral. exact He.
    + exact (proj1 (wp_sound _ _ _ _ _ _ (wp_sync_act env mrs p ost0) _ _ R)).
Qed.

(* T3: after a successful Sync every registered cluster host that the manager's view shows as master,
   without a known lag, or converged is RESTORED - with at most one host k exempt *)
Theorem sync_success_restores env tr : runs (opt_sync env) tr (Done None) ->
  exists mrs k, master_seen env tr mrs /\
    forall h en, observed tr h en ->
      (classify env mrs en (assoc h (ov_states env)) = OcMalf \/ classify env mrs en (assoc h (ov_states env)) = OcOptimized) ->
      mem_host h (ov_cluster env) = true -> Some h <> k ->
      o_rest (fold_steps ost (ostep mrs) ost0 tr) h = true.
Proof.
  intros H. destruct (opt_sync_runs _ _ _ H) as [[_ F]|(mrs & p & t1 & t2 & -> & F & M & P & R)]; [contradiction|].
  exists mrs, (kept p). split; [exact M|]. intros h en Ho Hc Hm Hk.
  assert (Ho1 : observed t1 h en).
  { destruct Ho as (e & Hin & C & Rr). apply in_app_or in Hin. destruct Hin as [Hin|Hin]; [exists e; auto|].
    exfalso. pose proof (allcalls_sound _ _ (sync_act_tampers_only_kept env mrs p) _ _ R) as FA.
    rewrite Forall_forall in FA. specialize (FA e Hin). destruct FA as [_ NG]. rewrite C in NG. exact NG. }
  rewrite fold_steps_app.
  assert (fold_steps ost (ostep mrs) ost0 t1 = ost0) as ->.
  { apply (fold_steps_neutral ost (ostep mrs) (ookc (ov_cluster env))). eapply Forall_impl; [|exact F]. intros e He. apply readcall_neutral. exact He. }
  pose proof (proj2 (wp_sound _ _ _ _ _ _ (wp_sync_act env mrs p ost0) _ _ R)) as Q. cbn beta iota in Q.
  apply Q; auto. unfold to_restore. specialize (P h en Ho1).
  destruct Hc as [Hc|Hc]; rewrite Hc in P; cbn [class_list] in P; apply in_or_app; [right; apply in_or_app; left|left]; exact P.
Qed.

(* T2: in every run of Sync settings other than the master's are given to at most one host *)
Theorem sync_relaxes_at_most_one env tr o : runs (opt_sync env) tr o ->
  exists mrs k, (Forall (fun e => readcall (ev_call e)) tr \/ master_seen env tr mrs) /\
    Forall (fun e => tamper_ok mrs k (ev_call e)) tr.
Proof.
  intros H. destruct (opt_sync_runs _ _ _ H) as [[F _]|(mrs & p & t1 & t2 & -> & F & M & P & R)].
  - exists (0, 0), None. split; [left; exact F|]. eapply Forall_impl; [|exact F]. intros e He. apply readcall_tamper; exact He.
  - exists mrs, (kept p). split; [right; exact M|]. apply Forall_app. split.
    + eapply Forall_impl; [|exact F]. intros e He. apply readcall_tamper; exact He.
    + pose proof (allcalls_sound _ _ (sync_act_tampers_only_kept env mrs p) _ _ R) as FA.
      eapply Forall_impl; [|exact FA]. intros e [He _]. exact He.
Qed.

(* ---------------------------------------------------------------- deregistration really happens (second monitor) *)
Definition dstep (st : list host) (c : call) (r : resp) : list host :=
  match c with
  | DcsDelete (POptNode h) => match r with ROk | RErr ENotFound => h :: st | _ => st end
  | _ => st
  end.
Definition dokc (st : list host) (c : call) : Prop := True.
Notation DWP := (wp (list host) dstep dokc).

Lemma sql_dneutral h s : dokc [] (Sql h s) /\ neutral (list host) dstep (Sql h s).
Proof. split; [exact I|intros st r; reflexivity]. Qed.

Lemma dwp_sql_only {A} (p : prog A) st (Q : list host -> A -> Prop) :
  allcalls (fun _ c => exists h s, c = Sql h s) p -> (forall a, Q st a) -> DWP st p Q.
Proof.
  intros H HQ. apply wp_neutral; [|exact HQ]. eapply allcalls_impl; [|exact H].
  intros s c (h & x & ->). split; [exact I|intros st' r; reflexivity].
Qed.

Lemma ac_sql_stop_nodes env l rs : allcalls (fun _ c => exists h s, c = Sql h s) (stop_nodes env l rs).
Proof. apply ac_stop_nodes; intros h; eauto. Qed.
Lemma ac_sql_optimize h : allcalls (fun _ c => exists h s, c = Sql h s) (optimize_replication h).
Proof. apply ac_optimize; eauto. Qed.
Lemma ac_sql_sync_node_options env h : allcalls (fun _ c => exists h s, c = Sql h s) (sync_node_options env h).
Proof.
  unfold sync_node_options. destruct (negb _); [exact I|]. unfold repl_settings. cbn [bind allcalls]. split; [eauto|].
  intros r. destruct r; cbn [bind snd fst]; try exact I. destruct (can_be_optimized _); [apply ac_sql_optimize|exact I].
Qed.

Lemma dwp_delete_hosts : forall l st,
  DWP st (delete_hosts l) (fun st' e => incl st st' /\ (e = None -> incl l st')).
Proof.
  induction l as [|h rest IH]; intros st; cbn [delete_hosts].
  - cbn [wp]. split; [apply incl_refl|intros _ x []].
  - unfold opt_delete_host. cbn [bind wp]. split; [exact I|]. intros r.
    assert (BAD : forall x : err, DWP (dstep st (DcsDelete (POptNode h)) r) (Ret (Some x)) (fun st' (e : oerr) => incl st st' /\ (e = None -> incl (h :: rest) st')) ).
    { intros x. cbn [wp]. split; [|discriminate]. unfold dstep. destruct r as [er| | | | | | | | | | | | | |]; try apply incl_refl; try (apply incl_tl, incl_refl).
      destruct er; try apply incl_refl. apply incl_tl, incl_refl. }
    assert (GOOD : dstep st (DcsDelete (POptNode h)) r = h :: st ->
              DWP (dstep st (DcsDelete (POptNode h)) r) (delete_hosts rest) (fun st' e => incl st st' /\ (e = None -> incl (h :: rest) st'))).
    { intros E. rewrite E. eapply wp_conseq; [|apply IH]. cbn beta. intros st' e [K1 K2]. split.
      - intros x Hx. apply K1. right. exact Hx.
      - intros He x [<-|Hx]; [apply K1; left; reflexivity|apply K2; auto]. }
    destruct r as [er| | | | | | | | | | | | | |]; cbn [bind]; try apply BAD; try (apply GOOD; reflexivity).
    destruct er; cbn [bind]; try apply BAD. apply GOOD. reflexivity.
Qed.

Theorem dwp_sync_act env mrs p st :
  DWP st (sync_act env mrs p) (fun st' e => e = None -> incl (op_optimized p ++ op_malf p) st').
Proof.
  unfold sync_act. apply wp_bind. unfold disable_nodes.
  assert (BAL : forall st1, incl (op_optimized p ++ op_malf p) st1 ->
            DWP st1 (balance env mrs p) (fun st' e => e = None -> incl (op_optimized p ++ op_malf p) st')).
  { intros st1 H1. apply dwp_sql_only; [|intros a _; exact H1]. unfold balance.
    destruct (op_optimizing p) as [|h [|h2 rest]].
    - destruct (op_disabled p) as [|d ds]; [exact I|]. destruct (mem_host d _); [apply ac_sql_optimize|exact I].
    - apply ac_sql_sync_node_options.
    - apply allcalls_bind; [apply ac_sql_stop_nodes|]. intros [e|]; [exact I|apply ac_sql_sync_node_options]. }
  destruct (op_optimized p ++ op_malf p) as [|h0 l0] eqn:El.
  - cbn [wp]. apply BAL. intros x [].
  - apply wp_bind. apply dwp_sql_only; [apply ac_sql_stop_nodes|]. intros [x|]; [cbn [wp]; discriminate|].
    eapply wp_conseq; [|apply dwp_delete_hosts]. cbn beta. intros st1 e [K1 K2]. destruct e as [x|]; [cbn [wp]; discriminate|].
    apply BAL. apply K2. reflexivity.
Qed.

(* T3b: ... and deregistered *)
Theorem sync_success_deregisters env tr : runs (opt_sync env) tr (Done None) ->
  exists mrs, master_seen env tr mrs /\
    forall h en, observed tr h en ->
      (classify env mrs en (assoc h (ov_states env)) = OcMalf \/ classify env mrs en (assoc h (ov_states env)) = OcOptimized) ->
      exists e, In e tr /\ ev_call e = DcsDelete (POptNode h) /\ (ev_resp e = ROk \/ ev_resp e = RErr ENotFound).
Proof.
  intros H. destruct (opt_sync_runs _ _ _ H) as [[_ F]|(mrs & p & t1 & t2 & -> & F & M & P & R)]; [contradiction|].
  exists mrs. split; [exact M|]. intros h en Ho Hc.
  assert (Ho1 : observed t1 h en).
  { destruct Ho as (e & Hin & C & Rr). apply in_app_or in Hin. destruct Hin as [Hin|Hin]; [exists e; auto|].
    exfalso. pose proof (allcalls_sound _ _ (sync_act_tampers_only_kept env mrs p) _ _ R) as FA.
    rewrite Forall_forall in FA. specialize (FA e Hin). destruct FA as [_ NG]. rewrite C in NG. exact NG. }
  pose proof (proj2 (wp_sound _ _ _ _ _ _ (dwp_sync_act env mrs p []) _ _ R)) as Q. cbn beta iota in Q. specialize (Q eq_refl).
  assert (Hin : In h (fold_steps (list host) dstep [] t2)).
  { apply Q. specialize (P h en Ho1). destruct Hc as [Hc|Hc]; rewrite Hc in P; cbn [class_list] in P; apply in_or_app; [right|left]; exact P. }
  assert (G : forall t st, In h (fold_steps (list host) dstep st t) -> In h st \/
            exists e, In e t /\ ev_call e = DcsDelete (POptNode h) /\ (ev_resp e = ROk \/ ev_resp e = RErr ENotFound)).
  { induction t as [|e t IHt]; intros st Hh; [left; exact Hh|]. unfold fold_steps in Hh. cbn [fold_left] in Hh.
    destruct (IHt _ Hh) as [Hs|(e0 & I0 & C0 & R0)]; [|right; exists e0; split; [right; exact I0|auto]].
    unfold dstep in Hs. destruct (ev_call e) eqn:Ec; try (left; exact Hs). destruct p0; try (left; exact Hs).
    destruct (ev_resp e) as [er| | | | | | | | | | | | | |] eqn:Er; try (left; exact Hs).
    - destruct er; try (left; exact Hs). destruct Hs as [<-|Hs]; [right; exists e; split; [left; reflexivity|auto]|left; exact Hs].
    - destruct Hs as [<-|Hs]; [right; exists e; split; [left; reflexivity|auto]|left; exact Hs]. }
  destruct (G _ _ Hin) as [[]|(e & I0 & C0 & R0)]. exists e. split; [apply in_or_app; right; exact I0|auto].
Qed.

(* ---------------------------------------------------------------- controller: Disable / DisableAll *)
Definition env_of_cluster (cluster : list host) : opt_env :=
  {| ov_master := 0%N; ov_states := []; ov_cluster := cluster; ov_low := 0; ov_high := 0 |}.

Lemma wp_opt_disable cluster rs h st :
  wp ost (ostep rs) (ookc cluster) st (opt_disable h rs)
     (fun st' e => (e = None -> o_rest st' h = true) /\ (forall x, x <> h -> o_rest st' x = o_rest st x)).
Proof.
  unfold opt_disable. apply wp_bind. eapply wp_conseq; [|apply (wp_set_settings (env_of_cluster cluster) rs)]. cbn beta.
  intros st1 e [H1 H2]. destruct e as [x|]; [cbn [wp]; split; [discriminate|exact H2]|].
  unfold opt_delete_host. cbn [wp ookc ostep]. split; [left; apply H1; reflexivity|].
  intros r. destruct r as [er| | | | | | | | | | | | | |]; cbn [wp]; try (split; [discriminate|exact H2]); try (split; [intros _; apply H1; reflexivity|exact H2]).
  destruct er; cbn [wp]; try (split; [discriminate|exact H2]). split; [intros _; apply H1; reflexivity|exact H2].
Qed.

Definition no_err (errs : list oerr) : Prop := existsb (fun e : oerr => match e with Some _ => true | None => false end) errs = false.

Lemma wp_disable_loop cluster rs nodes : forall names st,
  wp ost (ostep rs) (ookc cluster) st (forM names (fun h => if mem_host h nodes then opt_disable h rs else Ret None))
     (fun st' errs => (no_err errs -> forall h, In h names -> mem_host h nodes = true -> o_rest st' h = true) /\
                      (forall x, ~ In x names -> o_rest st' x = o_rest st x)).
Proof.
  induction names as [|h rest IH]; intros st; cbn [forM].
  - cbn [wp]. split; [intros _ h []|reflexivity].
  - apply wp_bind. destruct (mem_host h nodes) eqn:Em.
    + eapply wp_conseq; [|apply wp_opt_disable]. cbn beta. intros st1 e [H1 H2].
      apply wp_bind. eapply wp_conseq; [|apply IH]. cbn beta. intros st2 errs [K1 K2]. cbn [wp]. split.
      * unfold no_err. cbn [existsb]. intros Hn. apply orb_false_iff in Hn. destruct Hn as [He Hn]. destruct e as [x|]; [discriminate|].
        intros y [<-|Hy] Hm.
        -- destruct (in_dec N.eq_dec h rest) as [Hi|Hni]; [apply K1; auto|]. rewrite K2 by exact Hni. apply H1. reflexivity.
        -- apply K1; auto.
      * intros y Hy. rewrite K2 by (intros Hi; apply Hy; right; exact Hi). apply H2. intros ->. apply Hy. left. reflexivity.
    + cbn [wp]. apply wp_bind. eapply wp_conseq; [|apply IH]. cbn beta. intros st2 errs [K1 K2]. cbn [wp]. split.
      * unfold no_err. cbn [existsb orb]. intros Hn y [<-|Hy] Hm; [congruence|apply K1; auto].
      * intros y Hy. apply K2. intros Hi. apply Hy. right. exact Hi.
Qed.

(* which registered hosts DisableAll works on: the listing, or all given nodes when it cannot be read *)
Definition listed (tr : trace) (nodes : list host) (h : host) : Prop :=
  match tr with
  | e :: _ => match ev_resp e with RHosts l => In h l | _ => In h nodes end
  | [] => False
  end.
Definition settings_used (tr : trace) (rs : Z * Z) : Prop :=
  match tr with
  | _ :: e :: _ => match ev_resp e with RZ2 a b => rs = (a, b) | _ => rs = (1, 1) end
  | _ => True
  end.

Theorem disable_all_spec cluster master nodes tr o : runs (opt_disable_all master nodes) tr o ->
  exists rs, settings_used tr rs /\ trace_ok ost (ostep rs) (ookc cluster) ost0 tr /\
    (o = Done None -> forall h, listed tr nodes h -> mem_host h nodes = true ->
       o_rest (fold_steps ost (ostep rs) ost0 tr) h = true).
Proof.
  unfold opt_disable_all, dcs_children_. cbn [bind runs]. destruct tr as [|e1 tr1]; [intros []|]. intros (_ & Ec1 & H).
  set (names := match ev_resp e1 with RHosts l => l | _ => nodes end).
  assert (H' : runs (r <- repl_settings 50114 master ;;
                     let rs := match snd r with Some _ => (1, 1) | None => fst r end in
                     errs <- forM names (fun h => if mem_host h nodes then opt_disable h rs else Ret None) ;;
                     Ret (if existsb (fun e : oerr => match e with Some _ => true | None => false end) errs then Some EOther else None)) tr1 o).
  { subst names. destruct (ev_resp e1) as [er| | | | | | | | | | | |l| |]; cbn [bind snd fst] in H; exact H. }
  clear H. unfold repl_settings in H'. cbn [bind runs] in H'. destruct tr1 as [|e2 tr2]; [destruct H'|]. destruct H' as (_ & Ec2 & H).
  set (rs := match ev_resp e2 with RZ2 a b => (a, b) | _ => (1, 1) end).
  assert (H' : runs (errs <- forM names (fun h => if mem_host h nodes then opt_disable h rs else Ret None) ;;
                     Ret (if existsb (fun e : oerr => match e with Some _ => true | None => false end) errs then Some EOther else None)) tr2 o).
  { subst rs. destruct (ev_resp e2) as [er| | | | | | | |a b| | | | | |]; cbn [bind snd fst] in H; exact H. }
  clear H. exists rs. split; [cbn; subst rs; destruct (ev_resp e2); reflexivity|].
  assert (W : wp ost (ostep rs) (ookc cluster) ost0
                (errs <- forM names (fun h => if mem_host h nodes then opt_disable h rs else Ret None) ;;
                 Ret (if existsb (fun e : oerr => match e with Some _ => true | None => false end) errs then Some EOther else None))
                (fun st' e => e = None -> forall h, In h names -> mem_host h nodes = true -> o_rest st' h = true)).
  { apply wp_bind. eapply wp_conseq; [|apply wp_disable_loop]. cbn beta. intros st1 errs [K1 _]. cbn [wp].
    intros He. apply K1. unfold no_err. destruct (existsb _ errs); [discriminate|reflexivity]. }
  destruct (wp_sound _ _ _ _ _ _ W _ _ H') as [T1 T2].
  assert (N1 : ostep rs ost0 (ev_call e1) (ev_resp e1) = ost0) by (rewrite Ec1; reflexivity).
  assert (N2 : ostep rs ost0 (ev_call e2) (ev_resp e2) = ost0) by (rewrite Ec2; reflexivity).
  split.
  - cbn [trace_ok]. rewrite N1, N2, Ec1, Ec2. cbn [ookc]. auto.
  - intros -> h Hl Hm. unfold fold_steps. cbn [fold_left]. rewrite N1, N2. apply T2; [reflexivity| |exact Hm].
    subst names. cbn in Hl. destruct (ev_resp e1); exact Hl.
Qed.

Definition disable_call (c : call) : Prop :=
  match c with
  | DcsChildren POptNodes | Sql _ SReplSettings | Sql _ (SSetFlush _) | Sql _ (SSetSyncBinlog _) | DcsDelete (POptNode _) => True
  | _ => False
  end.
Lemma disable_all_calls master nodes : allcalls (fun _ c => disable_call c) (opt_disable_all master nodes).
Proof.
  unfold opt_disable_all, dcs_children_. cbn [bind allcalls]. split; [exact I|]. intros r.
  assert (G : forall names, allcalls (fun _ c => disable_call c)
     (r0 <- repl_settings 50114 master ;;
      let rs := match snd r0 with Some _ => (1, 1) | None => fst r0 end in
      errs <- forM names (fun h => if mem_host h nodes then opt_disable h rs else Ret None) ;;
      Ret (if existsb (fun e : oerr => match e with Some _ => true | None => false end) errs then Some EOther else None))).
  { intros names. unfold repl_settings. cbn [bind allcalls]. split; [exact I|]. intros r2.
    assert (G2 : forall rs, allcalls (fun _ c => disable_call c)
       (errs <- forM names (fun h => if mem_host h nodes then opt_disable h rs else Ret None) ;;
        Ret (if existsb (fun e : oerr => match e with Some _ => true | None => false end) errs then Some EOther else None))).
    { intros rs. apply allcalls_bind; [|intros; exact I]. apply allcalls_forM. intros h _. destruct (mem_host h nodes); [|exact I].
      unfold opt_disable. apply allcalls_bind; [apply ac_set_settings; exact I|]. intros [e|]; [exact I|].
      unfold opt_delete_host. cbn [allcalls]. split; [exact I|]. intros r3. destruct r3 as [er| | | | | | | | | | | | | |]; try exact I. destruct er; exact I. }
    destruct r2; cbn [bind snd fst]; apply G2. }
  destruct r; cbn [bind snd fst]; apply G.
Qed.

(* the link: performSwitchover does nothing before DisableAll has completed without error
   on the candidates, and until then issues only DisableAll's own calls *)
Definition switch_candidates (env : sw_env) (sw : switch_rec) : list host :=
  match sw_cause_ sw, sw_from sw with
  | CauseAuto, Some f => if N.eqb f (se_old_master env) then filter_out (se_active env) [se_old_master env] else se_active env
  | _, _ => se_active env
  end.
Theorem switchover_disables_first cfg env sw mem tr o : runs (perform_switchover cfg env sw mem) tr o ->
  let active := registered_only (map fst (se_all_hosts env)) (switch_candidates env sw) in
  tr = [] \/
  exists tr1 tr2, tr = tr1 ++ tr2 /\
    Forall (fun e => disable_call (ev_call e)) tr1 /\
    (runs (opt_disable_all (se_old_master env) active) tr1 (Done None) \/
     (tr2 = [] /\ exists o1, runs (opt_disable_all_k (mem_host (se_old_master env) (map fst (se_all_hosts env))) (se_old_master env) active) tr1 o1 /\ o1 <> Done None)).
Proof.
  unfold perform_switchover.
  destruct (match sw_to sw with Some t => negb (mem_host t (se_active env)) | None => false end); [cbn; intros [-> _]; left; reflexivity|].
  destruct (match dubious_ha_hosts (se_state env) with [] => false | _ => true end); [cbn; intros [-> _]; left; reflexivity|].
  fold (switch_candidates env sw).
  set (active := registered_only (map fst (se_all_hosts env)) (switch_candidates env sw)).
  intros H. right.
  assert (AC : forall k, allcalls (fun _ c => disable_call c) (opt_disable_all_k k (se_old_master env) active)).
  { intros k. unfold opt_disable_all_k. destruct k; [apply disable_all_calls|]. unfold dcs_children_. cbn [bind allcalls]. split; [exact I|]. intros r; destruct r; exact I. }
  destruct (runs_bind_inv _ _ _ _ H) as [(t1 & t2 & a & R1 & R2 & ->)|(s & R1 & ->)].
  - exists t1, t2. split; [reflexivity|].
    split; [exact (allcalls_sound _ _ (AC _) _ _ R1)|].
    destruct a as [x|].
    + right. cbn in R2. destruct R2 as [-> _]. split; [reflexivity|]. exists (Done (Some x)). split; [exact R1|discriminate].
    + left. unfold opt_disable_all_k in R1. destruct (mem_host _ _); [exact R1|].
      exfalso. unfold dcs_children_ in R1. cbn [bind runs] in R1. destruct t1 as [|e t1']; [destruct R1|]. destruct R1 as (_ & _ & R1).
      destruct (ev_resp e); cbn in R1; destruct R1 as [_ R1]; discriminate R1.
  - exists tr, []. split; [rewrite app_nil_r; reflexivity|].
    split; [exact (allcalls_sound _ _ (AC _) _ _ R1)|]. right. split; [reflexivity|]. exists (Panicked s). split; [exact R1|discriminate].
Qed.

(* ---------------------------------------------------------------- the pre-switchover speed-up phase: REFUTED
   "any pre-switchover speed-up phase has ended, with settings restored, before the freeze" is false of
   the code: Wait returns at its first tick because nothing ever sets the registry status to "enabled",
   the phase never deregisters its target, and a Sync of the syncer goroutine may meanwhile have relaxed
   the target.  Witness: master 1 with (1,1), replica 2 with lag 300 s and (1,1), request "switch to 2". *)
Definition w_ns (master : bool) (lag : option Z) : node_state :=
  {| ns_ping_ok := true; ns_ping_dubious := false; ns_is_master := master; ns_ro := negb master; ns_super_ro := negb master; ns_offline := false;
     ns_is_cascade := false; ns_fs_ro := false; ns_has_error := false; ns_disk := None; ns_daemon := None;
     ns_master_gtid := None;
     ns_slave := if master then None else Some {| rs_source := 1%N; rs_io := true; rs_sql := true; rs_io_errno := 0; rs_sql_errno := 0; rs_lag := lag;
                                                   rs_executed := []; rs_retrieved := []; rs_file := 1%N; rs_pos := 0 |};
     ns_semi := None; ns_repl_settings := Some (1, 1); ns_check_at := 0 |}.
Definition w_env : opt_env :=
  {| ov_master := 1%N; ov_states := [(1%N, w_ns true None); (2%N, w_ns false (Some 300))]; ov_cluster := [1%N; 2%N]; ov_low := 60; ov_high := 120 |}.
Definition w_sw : switch_rec :=
  {| sw_from := None; sw_to := Some 2%N; sw_cause_ := CauseManual; sw_kind := SwSwitchover; sw_master_transition := true;
     sw_run_count := 0; sw_initiated_at := 0; sw_started := true; sw_started_at := 0; sw_result := None |}.
Definition ev (s : site) (c : call) (r : resp) : event := {| ev_site := s; ev_call := c; ev_resp := r |}.
Definition w_wait : trace :=
  [ ev 40047 (Sleep (3 * sec)) ROk; ev 40046 Now (RZ (3 * sec)); ev 40065 (DcsGet (POptNode 2%N)) (RVal (VOpt false)) ].
Definition w_sync : trace :=
  [ ev 40258 (Peek (DcsChildren POptNodes)) (RBool true);
    ev 50080 (DcsChildren POptNodes) (RHosts [2%N]); ev 30044 (DcsGet (POptNode 2%N)) (RVal (VOpt false));
    ev 11148 (Sql 2%N (SSetFlush 2)) ROk; ev 11152 (Sql 2%N (SSetSyncBinlog 1000)) ROk;
    ev 40258 (Peek (DcsChildren POptNodes)) (RBool false) ].
Definition w_trace : trace :=
  [ ev 50141 (DcsCreate (POptNode 2%N) (VOpt false)) ROk; ev 40233 Now (RZ 0) ] ++ w_sync ++ w_wait.

Lemma interleave2_app a b : interleave2 a b (a ++ b).
Proof.
  induction a as [|x a IH]; [reflexivity|]. destruct b as [|y b]; [cbn; rewrite app_nil_r; reflexivity|].
  cbn. left. split; [reflexivity|]. apply IH.
Qed.

Theorem phase_leaves_target_relaxed_and_registered_refuted : forall cfg, c_semi_sync cfg = true ->
  runs (optimization_phase 2 cfg w_env w_sw [1%N; 2%N] (10 * sec)) w_trace (Done tt) /\
  (* the target was registered by the phase and never deregistered *)
  In (ev 50141 (DcsCreate (POptNode 2%N) (VOpt false)) ROk) w_trace /\
  (forall e, In e w_trace -> ev_call e <> DcsDelete (POptNode 2%N)) /\
  (* it was given the relaxed settings, and its last settings statements are those *)
  o_rest (fold_steps ost (ostep (1, 1)) ost0 w_trace) 2%N = false /\
  In (ev 11152 (Sql 2%N (SSetSyncBinlog 1000)) ROk) w_trace.
Proof.
  intros cfg Hs. split; [|split; [|split; [|split]]].
  - unfold optimization_phase, phase_prefix. rewrite Hs. cbn [negb]. unfold choose_replica_to_optimize, w_sw. cbn [sw_to bind].
    cbn. split; [reflexivity|]. split; [reflexivity|]. split; [reflexivity|]. split; [reflexivity|].
    (* the two branches *)
    exists w_wait, (Done ROk). split.
    { cbn. repeat (split; [reflexivity|]). split; reflexivity. }
    exists w_sync, (Done ROk). split.
    { cbn. repeat (split; [reflexivity|]). split; reflexivity. }
    exists (w_sync ++ w_wait), [], [(0%N, ROk); (1%N, ROk)]. split.
    { cbn [rev app interleave]. exists w_sync. split.
      - exists []. split; [reflexivity|]. cbn. reflexivity.
      - (* interleave2 w_wait w_sync (w_sync ++ w_wait) : all of the syncer's events first *)
        unfold w_wait, w_sync. cbn. right. split; [reflexivity|]. right. split; [reflexivity|]. right. split; [reflexivity|].
        right. split; [reflexivity|]. right. split; [reflexivity|]. right. split; [reflexivity|]. reflexivity. }
    split; [rewrite app_nil_r; reflexivity|]. split; [apply Permutation.Permutation_refl|]. cbn. split; reflexivity.
  - cbn. left. reflexivity.
  - intros e He. cbn in He. repeat (destruct He as [<-|He]; [cbn; discriminate|]). destruct He.
  - vm_compute. reflexivity.
  - cbn. do 6 right. left. reflexivity.
Qed.
