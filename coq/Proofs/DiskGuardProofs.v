From Coq Require Import ZArith NArith Bool List Lia.
From Mysync Require Import Gtid.Interval Gtid.GtidSet Base.Prog Base.ProgFacts Base.Config Procs.NodeOps Procs.DiskGuard Proofs.NodeOpsProofs.
Import ListNotations.
Open Scope Z_scope.

(* what the disk guard may do, given its decision *)
Definition guard_call_ok (master : host) (a : guard_action) (c : call) : Prop :=
  match c with
  | Sql h st =>
      h = master /\
      match st with
      | SSetRO s => a = GaSetRO s
      | SIsReadOnly | SProcessIds | SKill _ => exists s, a = GaSetRO s
      | SSetWritable => a = GaSetWritable
      | _ => False
      end
  | DcsSet PLowSpace (VBool b) => if b then exists s, a = GaSetRO s else a = GaSetWritable
  | Peek _ => True
  | _ => False
  end.

Theorem guard_allcalls cfg master ms states :
  allcalls (fun _ c => guard_call_ok master (guard_decide cfg master ms states) c) (repair_read_only_on_master cfg master ms states).
Proof.
  unfold repair_read_only_on_master. destruct (guard_decide cfg master ms states) as [s| |]; [| |exact I].
  - apply allcalls_bind.
    + apply ac_set_read_only_with_force; cbn; eauto.
    + intros [e|]; [exact I|]. split; [cbn; eauto|intros; exact I].
  - apply allcalls_bind; [apply ac_exec; cbn; auto|]. intros [e|]; [exact I|]. split; [cbn; auto|intros; exact I].
Qed.

Theorem guard_trace_ok cfg master ms states tr o :
  runs (repair_read_only_on_master cfg master ms states) tr o ->
  Forall (fun e => guard_call_ok master (guard_decide cfg master ms states) (ev_call e)) tr.
Proof. intros H. exact (allcalls_sound _ _ (guard_allcalls cfg master ms states) tr o H). Qed.

Theorem guard_none_no_calls cfg master ms states :
  guard_decide cfg master ms states = GaNone -> repair_read_only_on_master cfg master ms states = Ret tt.
Proof. intros H. unfold repair_read_only_on_master. rewrite H. reflexivity. Qed.

Theorem guard_ro_first_call cfg master ms states s tr o :
  guard_decide cfg master ms states = GaSetRO s ->
  runs (repair_read_only_on_master cfg master ms states) tr o ->
  exists e tr', tr = e :: tr' /\ ev_call e = Sql master (SSetRO s).
Proof. intros H Hr. eapply runs_head; [|exact Hr]. unfold repair_read_only_on_master. rewrite H. reflexivity. Qed.

Theorem guard_rw_first_call cfg master ms states tr o :
  guard_decide cfg master ms states = GaSetWritable ->
  runs (repair_read_only_on_master cfg master ms states) tr o ->
  exists e tr', tr = e :: tr' /\ ev_call e = Sql master SSetWritable.
Proof. intros H Hr. eapply runs_head; [|exact Hr]. unfold repair_read_only_on_master. rewrite H. reflexivity. Qed.

(* the low-space flag is written only as the LAST call, right after the statement succeeded *)
Theorem guard_flag_after_success cfg master ms states tr o :
  runs (repair_read_only_on_master cfg master ms states) tr o ->
  guard_decide cfg master ms states = GaSetWritable ->
  forall e, In e tr -> (exists v, ev_call e = DcsSet PLowSpace v) ->
  tr = [{| ev_site := 1756; ev_call := Sql master SSetWritable; ev_resp := ROk |}; e] /\ ev_call e = DcsSet PLowSpace (VBool false).
Proof.
  intros Hr Hd e Hin [v Hv]. unfold repair_read_only_on_master in Hr. rewrite Hd in Hr.
  cbn in Hr. destruct tr as [|e1 tr1]; [destruct Hr|]. destruct Hr as (Hs & Hc & Hr).
  destruct e1 as [s1 c1 r1]. cbn in *. subst s1 c1.
  destruct r1; cbn in Hr;
    try (destruct Hr as [-> _]; destruct Hin as [<-|[]]; cbn in Hv; discriminate).
  destruct tr1 as [|e2 tr2]; [destruct Hr|]. destruct Hr as (Hs2 & Hc2 & [-> _]).
  destruct Hin as [<-|[<-|[]]]; [cbn in Hv; discriminate|].
  destruct e2 as [s2 c2 r2]. cbn in *. subst. split; reflexivity.
Qed.

(* ---- the decision ---------------------------------------------------------- *)
Definition guard_counts_of cfg master states :=
  fold_left (guard_step cfg master) states {| g_need_ro := false; g_may_write := true; g_running := 0; g_low := 0; g_normal := 0 |}.

Definition guard_need_ro cfg master ms states : bool :=
  let c := guard_counts_of cfg master states in
  g_need_ro c || ((0 <? g_running c) && match ns_semi ms with Some (_, _, w) => g_running c - w <? g_low c | None => false end).

Definition guard_may_write cfg master (ms : node_state) states : bool :=
  let c := guard_counts_of cfg master states in
  g_may_write c && negb ((0 <? g_running c) && (g_normal c =? 0)).

Ltac guard_brute :=
  cbn;
  first [ split; [intros E; try discriminate E; inversion E; auto
               | intros (A & B & C); try discriminate A; try discriminate B; try discriminate C; subst; reflexivity] ].

Theorem guard_decide_ro_iff cfg master ms states s :
  guard_decide cfg master ms states = GaSetRO s <->
  guard_need_ro cfg master ms states = true /\
  (ns_ro ms && negb (Bool.eqb (c_keep_super_writable cfg) (ns_super_ro ms))) = false /\
  s = negb (c_keep_super_writable cfg).
Proof.
  unfold guard_decide, guard_need_ro, guard_counts_of.
  set (c := fold_left _ _ _).
  destruct (ns_semi ms) as [[[m sl] w]|].
  - destruct (0 <? g_running c), (g_running c - w <? g_low c), (g_normal c =? 0), (g_need_ro c), (g_may_write c), (ns_ro ms),
      (c_keep_super_writable cfg), (ns_super_ro ms); guard_brute.
  - destruct (0 <? g_running c), (g_normal c =? 0), (g_need_ro c), (g_may_write c), (ns_ro ms),
      (c_keep_super_writable cfg), (ns_super_ro ms); guard_brute.
Qed.

Theorem guard_decide_rw_iff cfg master ms states :
  guard_decide cfg master ms states = GaSetWritable <->
  guard_need_ro cfg master ms states = false /\ guard_may_write cfg master ms states = true /\ ns_ro ms = true.
Proof.
  unfold guard_decide, guard_need_ro, guard_may_write, guard_counts_of.
  set (c := fold_left _ _ _).
  destruct (ns_semi ms) as [[[m sl] w]|].
  - destruct (0 <? g_running c), (g_running c - w <? g_low c), (g_normal c =? 0), (g_need_ro c), (g_may_write c), (ns_ro ms),
      (c_keep_super_writable cfg), (ns_super_ro ms); guard_brute.
  - destruct (0 <? g_running c), (g_normal c =? 0), (g_need_ro c), (g_may_write c), (ns_ro ms),
      (c_keep_super_writable cfg), (ns_super_ro ms); guard_brute.
Qed.

(* master part of need_ro: exactly when some health record of the recorded master reports critical usage *)
Lemma guard_step_need_ro cfg master acc hn :
  g_need_ro (guard_step cfg master acc hn) =
  g_need_ro acc || match ns_disk (snd hn) with
                   | Some d => ns_is_master (snd hn) && N.eqb master (fst hn) && usage_ge d (c_critical_disk cfg)
                   | None => false
                   end.
Proof.
  destruct hn as [h ns]. cbn [fst snd guard_step]. destruct (ns_disk ns) as [d|]; [|rewrite orb_false_r; reflexivity].
  destruct (ns_is_master ns && N.eqb master h); cbn [andb].
  - destruct (usage_ge d (c_critical_disk cfg)); cbn; [rewrite orb_true_r; reflexivity|].
    rewrite orb_false_r. destruct (usage_gt d (c_not_critical_disk cfg)); reflexivity.
  - rewrite orb_false_r. destruct (is_running_semisync_replica cfg ns); [|reflexivity].
    destruct (usage_ge d (c_critical_disk cfg)); [reflexivity|]. destruct (usage_gt d (c_not_critical_disk cfg)); reflexivity.
Qed.

Theorem guard_master_critical_iff cfg master states :
  g_need_ro (guard_counts_of cfg master states) = true <->
  exists h ns d, In (h, ns) states /\ ns_disk ns = Some d /\ ns_is_master ns = true /\ h = master /\ usage_ge d (c_critical_disk cfg) = true.
Proof.
  unfold guard_counts_of.
  assert (G : forall acc, g_need_ro (fold_left (guard_step cfg master) states acc) = true <->
            g_need_ro acc = true \/ exists h ns d, In (h, ns) states /\ ns_disk ns = Some d /\ ns_is_master ns = true /\ h = master /\ usage_ge d (c_critical_disk cfg) = true).
  { induction states as [|[h ns] r IH]; intros acc; cbn [fold_left].
    - split; [auto|intros [H|(h & ns & d & [] & _)]; exact H].
    - rewrite IH, guard_step_need_ro. cbn [fst snd]. rewrite orb_true_iff. split.
      + intros [[H|H]|(h' & ns' & d & Hi & K)].
        * left; exact H.
        * right. destruct (ns_disk ns) as [d|] eqn:Ed; [|discriminate].
          apply andb_true_iff in H. destruct H as [H H3]. apply andb_true_iff in H. destruct H as [H1 H2].
          apply N.eqb_eq in H2. exists h, ns, d. split; [left; reflexivity|]. auto.
        * right. exists h', ns', d. split; [right; exact Hi|exact K].
      + intros [H|(h' & ns' & d & [E|Hi] & K1 & K2 & K3 & K4)].
        * left; left; exact H.
        * inversion E; subst. left; right. rewrite K1, K2, K4, N.eqb_refl. reflexivity.
        * right. exists h', ns', d. auto. }
  rewrite G. cbn. split; [intros [H|H]; [discriminate|exact H]|auto].
Qed.

(* usage comparison is the exact rational comparison 100*used/total >= t/100 *)
Theorem usage_ge_spec used total t : 0 < total -> 0 <= used <= total ->
  (usage_ge (used, total) t = true <-> t * total <= 10000 * used).
Proof.
  intros Ht Hu. unfold usage_ge. destruct (Z.eqb_spec total 0); [lia|]. destruct (Z.ltb_spec total used); [lia|]. apply Z.leb_le.
Qed.
