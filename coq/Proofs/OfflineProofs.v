From Coq Require Import ZArith NArith Bool List Lia.
From Mysync Require Import Gtid.Interval Gtid.GtidSet Base.Prog Base.ProgFacts Base.Config Procs.NodeOps Procs.ActiveNodes Procs.Switchover Procs.OfflineMode
  Proofs.NodeOpsProofs Proofs.SwitchoverProofs.
Import ListNotations.
Open Scope Z_scope.

(* what one replica's pass may issue, by site: 1644 = offline for lag, 1679 =
   offline as permanently broken, 1632 = online *)
Definition slave_call_ok (cfg : config) (env : off_env) (h : host) (ns ms : node_state) (pending : list (N * Z)) (s : site) (c : call) : Prop :=
  match c with
  | Sql x SSetOffline =>
      x = h /\
      ((s = 1644 /\ ns_offline ns = false /\ ns_ro ms = false /\
        (exists lag, slave_lag ns = Some lag /\ c_offline_enable_lag cfg < lag) /\ can_set_offline cfg env h pending = true) \/
       (s = 1679 /\ ns_offline ns = false /\ perm_broken ns = true))
  | Sql x SSetOnline =>
      x = h /\ ns_offline ns = true /\ perm_broken ns = false /\ exists lag, slave_lag ns = Some lag /\ lag <= c_offline_disable_lag cfg
  | Sql x (SSetFlush _) | Sql x (SSetSyncBinlog _) => x = h
  | Sql _ SStartupTime | Sql _ SReplSettings => True
  | DcsGet _ | DcsCreate _ _ | DcsSet PLastShutdown _ | Now => True
  | _ => False
  end.

Theorem slave_offline_calls cfg env h ns ms pending :
  allcalls (slave_call_ok cfg env h ns ms pending) (repair_slave_offline cfg env h ns ms pending).
Proof.
  unfold repair_slave_offline. destruct (slave_lag ns) as [lag|] eqn:El; [|exact I].
  destruct (ns_offline ns) eqn:Eo; cbn [andb negb].
  - destruct (Z.leb_spec lag (c_offline_disable_lag cfg)) as [Hl|Hl].
    + destruct (perm_broken ns) eqn:Eb; [exact I|].
      split; [exact I|]. intros r. destruct r; try exact I. destruct v; try exact I.
      unfold startup_time. apply allcalls_bind; [split; [exact I|intros r; pac]|]. intros [st e]. cbn [fst snd].
      destruct e; [exact I|]. destruct (status || (update_time <? st)); [exact I|].
      apply allcalls_bind.
      { unfold set_default_repl_settings. apply allcalls_bind; [apply ac_repl_settings; exact I|]. intros [rs e2]. destruct e2; [exact I|].
        apply allcalls_bind; [apply ac_exec; reflexivity|]. intros [e3|]; [exact I|]. apply ac_exec; reflexivity. }
      intros _. apply allcalls_bind; [apply ac_exec; cbn; rewrite El; repeat split; eauto|]. intros; exact I.
    + cbn [bind]. destruct (negb (perm_broken ns)) eqn:Eb; [exact I|].
      split; [exact I|]. intros r. unfold now_.
      destruct r; try destruct e; try destruct v; cbn; repeat (first [exact I | split | intro]);
        try (match goal with r2 : resp |- _ => destruct r2 end; cbn; repeat (first [exact I | split | intro])).
  - apply allcalls_bind.
    { destruct (negb (ns_ro ms)) eqn:Er; cbn [andb]; [|exact I].
      destruct (Z.ltb_spec (c_offline_enable_lag cfg) lag) as [Hl|Hl]; [|exact I].
      destruct (can_set_offline cfg env h pending) eqn:Ec; [|exact I].
      apply allcalls_bind.
      { apply ac_exec. cbn. split; [reflexivity|]. left. apply negb_true_iff in Er. repeat split; auto. exists lag. auto. }
      intros [e|]; [exact I|]. apply allcalls_bind; [unfold opt_enable; split; [exact I|intros r; pac]|]. intros; exact I. }
    intros p1. destruct (negb (perm_broken ns)) eqn:Eb; [exact I|]. apply negb_false_iff in Eb.
    split; [exact I|]. intros r.
    assert (G : forall last, allcalls (slave_call_ok cfg env h ns ms pending)
      (t <- now_ 1673 ;;
       if negb false && (c_offline_enable_interval cfg <? t - last) then
         tn <- now_ 30174 ;; dcs_set_ 30174 PLastShutdown (VTime tn) ;;; exec_ 1679 h SSetOffline ;;; Ret p1
       else Ret p1)).
    { intros last. unfold now_. cbn [bind allcalls negb andb]. split; [exact I|]. intros t.
      destruct (c_offline_enable_interval cfg <? _); [|exact I].
      cbn [bind allcalls]. split; [exact I|]. intros tn. unfold dcs_set_. cbn [bind allcalls]. split; [exact I|]. intros r3.
      assert (K : allcalls (slave_call_ok cfg env h ns ms pending) (exec_ 1679 h SSetOffline ;;; Ret p1)).
      { apply allcalls_bind; [apply ac_exec; cbn; split; [reflexivity|right; auto]|]. intros; exact I. }
      destruct r3; try destruct e; exact K. }
    destruct r; try exact I; try apply (G 0).
    * destruct e; try exact I. unfold now_. cbn [bind allcalls]. split; [exact I|]. intros t1. split; [exact I|]. intros r2.
      destruct r2; cbn [bind allcalls]; try (split; [exact I|intros; exact I]).
      split; [exact I|]. intros t2. apply G.
    * destruct v; try apply (G 0). apply (G t).
Qed.

(* between the thresholds (and not permanently broken): no statement at all *)
Theorem slave_between_thresholds_untouched cfg env h ns ms pending lag :
  slave_lag ns = Some lag -> perm_broken ns = false ->
  c_offline_disable_lag cfg < lag <= c_offline_enable_lag cfg ->
  repair_slave_offline cfg env h ns ms pending = Ret pending.
Proof.
  intros El Eb [H1 H2]. unfold repair_slave_offline. rewrite El, Eb.
  destruct (Z.leb_spec lag (c_offline_disable_lag cfg)); [lia|]. rewrite andb_false_r.
  destruct (Z.ltb_spec (c_offline_enable_lag cfg) lag); [lia|]. rewrite !andb_false_r. reflexivity.
Qed.

(* the per-zone cap *)
Theorem can_set_offline_spec cfg env h pending : 0 < c_offline_max_pct cfg < 100 ->
  let az := zone_of env h in
  let same := filter (fun '(x, ns) => negb (ns_is_master ns) && N.eqb (zone_of env x) az) (oe_state env) in
  let total := Z.of_nat (length same) in
  let offline := Z.of_nat (length (filter (fun '(_, ns) => ns_offline ns) same)) in
  (can_set_offline cfg env h pending = true <->
   0 < total /\ (100 * (offline + pending_get az pending + 1)) / total <= c_offline_max_pct cfg).
Proof.
  intros [Hlo Hhi]. cbn zeta. unfold can_set_offline.
  destruct (Z.leb_spec (c_offline_max_pct cfg) 0) as [K1|K1]; [lia|]. destruct (Z.leb_spec 100 (c_offline_max_pct cfg)) as [K2|K2]; [lia|].
  match goal with |- context [Z.of_nat (length ?l) =? 0] => set (T := Z.of_nat (length l)) end.
  destruct (Z.eqb_spec T 0) as [E|E].
  - split; [discriminate|]. intros [K _]. lia.
  - rewrite Z.leb_le. split; [intros K; split; [unfold T in *; lia|exact K]|tauto].
Qed.

(* the master: set online only when offline and the recovery mark was read as absent *)
Definition master_call_ok (h : host) (ns : node_state) (c : call) : Prop :=
  match c with
  | Sql x SSetOnline => x = h /\ ns_offline ns = true
  | DcsGet (PRecovery x) => x = h
  | _ => False
  end.
Theorem master_offline_calls h ns : allcalls (fun _ c => master_call_ok h ns c) (repair_master_offline h ns).
Proof.
  unfold repair_master_offline, is_recovery_needed. destruct (ns_offline ns) eqn:E; [|exact I].
  cbn [bind allcalls]. split; [reflexivity|]. intros r.
  assert (G : allcalls (fun _ c => master_call_ok h ns c) (exec_ 1591 h SSetOnline ;;; Ret tt)).
  { apply allcalls_bind; [apply ac_exec; cbn; auto|]. intros; exact I. }
  destruct r; try exact G. exact I.
Qed.
Theorem master_marked_stays_offline h ns e1 tr1 v o :
  ns_offline ns = true ->
  runs (repair_master_offline h ns) (e1 :: tr1) o ->
  ev_resp e1 = RVal v ->
  ev_call e1 = DcsGet (PRecovery h) /\ tr1 = [].
Proof.
  intros Eo H Hr. unfold repair_master_offline, is_recovery_needed in H. rewrite Eo in H.
  cbn [bind runs] in H. destruct H as (_ & Hc & H). rewrite Hr in H. cbn in H. destruct H as [-> _]. auto.
Qed.
