(* C14: "among equal priorities it prefers the candidate with more transactions, THEN WITH LESS LAG".
   Of all candidates with the top priority and the same transactions as the chosen one, the chosen one has the least lag. *)
From Coq Require Import ZArith NArith Bool List Lia.
From Mysync Require Import Gtid.Interval Gtid.GtidSet Pure.Desirable Proofs.IntervalProofs Proofs.GtidProofs Proofs.GtidEqual Proofs.DesirableProofs.
Import ListNotations.
Open Scope Z_scope.

Definition lag_inv (mx : position) (seen : list position) : Prop :=
  forall p, In p seen -> p_prio p = p_prio mx -> same (p_set p) (p_set mx) -> p_lag mx <= p_lag p.

Lemma prio_step_lag_inv mx seen q : wf (p_set mx) -> wf (p_set q) -> (forall p, In p seen -> wf (p_set p)) ->
  prio_inv mx (mx :: seen) -> lag_inv mx (mx :: seen) -> lag_inv (prio_step mx q) (q :: mx :: seen).
Proof.
  intros Wm Wq Ws Hp Hl. unfold prio_step.
  destruct (Z.ltb_spec (p_prio mx) (p_prio q)) as [Hlt|Hge].
  - (* higher priority takes over: nobody seen so far shares it *)
    intros p [<-|Hin] Epr Hs; [lia|]. destruct (Hp p Hin) as [H1 _]. lia.
  - destruct (Z.eqb_spec (p_prio mx) (p_prio q)) as [Heq|Hne].
    + destruct (set_equal (p_set q) (p_set mx)) eqn:Eq.
      * pose proof (set_equal_sound _ _ Wq Wm Eq) as Sq.
        destruct (Z.ltb_spec (p_lag q) (p_lag mx)) as [Hlag|Hlag].
        -- intros p [<-|Hin] Epr Hs; [lia|].
           assert (same (p_set p) (p_set mx)) as Spm by (eapply same_trans; [exact Hs|exact Sq]).
           pose proof (Hl p Hin ltac:(lia) Spm). lia.
        -- intros p [<-|Hin] Epr Hs; [lia|]. exact (Hl p Hin Epr Hs).
      * destruct (set_contain (p_set q) (p_set mx)) eqn:Ec.
        -- (* q has strictly more: nobody seen so far has the same transactions as q *)
           apply set_contain_spec in Ec; auto.
           intros p [<-|Hin] Epr Hs; [lia|]. exfalso.
           assert (Wp : wf (p_set p)) by (destruct Hin as [<-|Hin]; [exact Wm|apply Ws; exact Hin]).
           destruct (Hp p Hin) as [_ H2]. apply H2; [lia|]. split.
           ++ intros u t g K. rewrite (Hs u t g). apply Ec. exact K.
           ++ intros K. apply not_true_iff_false in Eq. apply Eq. apply set_equal_complete; auto.
              intros u t g. apply eq_true_iff_eq. split; intros G.
              ** rewrite <- (Hs u t g) in G. apply K. exact G.
              ** apply Ec. exact G.
        -- intros p [<-|Hin] Epr Hs.
           ++ exfalso. apply not_true_iff_false in Eq. apply Eq. apply set_equal_complete; auto.
           ++ exact (Hl p Hin Epr Hs).
    + intros p [<-|Hin] Epr Hs; [lia|]. exact (Hl p Hin Epr Hs).
Qed.

Lemma fold_lag_inv l : forall mx seen, wf (p_set mx) -> (forall p, In p seen -> wf (p_set p)) -> (forall p, In p l -> wf (p_set p)) ->
  prio_inv mx (mx :: seen) -> lag_inv mx (mx :: seen) ->
  lag_inv (fold_left prio_step l mx) (rev l ++ mx :: seen).
Proof.
  induction l as [|q l IH]; intros mx seen Wm Ws Wl Hp Hl; cbn [fold_left rev app]; [exact Hl|].
  assert (Wq : wf (p_set q)) by (apply Wl; left; reflexivity).
  pose proof (prio_step_inv mx seen q Wm Wq Ws Hp) as Hp1.
  pose proof (prio_step_lag_inv mx seen q Wm Wq Ws Hp Hl) as Hl1.
  set (mx' := prio_step mx q) in *.
  assert (Wm' : wf (p_set mx')) by (unfold mx'; destruct (prio_step_pick mx q) as [->| ->]; assumption).
  assert (Hp' : prio_inv mx' (mx' :: q :: mx :: seen)).
  { intros p [<-|Hp0]; [split; [lia|intros _ [_ H]; apply H; intros u t g K; exact K]|apply Hp1; exact Hp0]. }
  assert (Hl' : lag_inv mx' (mx' :: q :: mx :: seen)).
  { intros p [<-|Hp0] E S; [lia|exact (Hl1 p Hp0 E S)]. }
  assert (R : lag_inv (fold_left prio_step l mx') (rev l ++ mx' :: q :: mx :: seen)).
  { apply IH; auto.
    - intros p [<-|[<-|Hp0]]; auto.
    - intros p Hp0. apply Wl. right. exact Hp0. }
  intros p Hin. apply R. rewrite <- app_assoc in Hin. cbn in Hin.
  apply in_app_or in Hin. apply in_or_app. destruct Hin as [Hin|Hin]; [left; exact Hin|right; right; exact Hin].
Qed.

Theorem most_priority_least_lag ps top : all_wf ps -> most_priority ps = Some top ->
  forall p, In p ps -> p_prio p = p_prio top -> same (p_set p) (p_set top) -> p_lag top <= p_lag p.
Proof.
  intros Hwf Et. destruct ps as [|p0 r]; [discriminate|]. cbn in Et. inversion Et; subst top. clear Et.
  assert (R : lag_inv (fold_left prio_step r p0) (rev r ++ p0 :: [])).
  { apply fold_lag_inv; [apply Hwf; left; reflexivity|intros p []|intros p Hp; apply Hwf; right; exact Hp| |].
    - intros p [<-|[]]. split; [lia|intros _ [_ H]; apply H; intros u t g K; exact K].
    - intros p [<-|[]] _ _. lia. }
  intros p Hp. apply R. apply in_or_app. destruct Hp as [<-|Hp]; [right; left; reflexivity|left; apply in_rev in Hp; exact Hp].
Qed.
