(* C08 in the world model (Env/World.v): where a fence decision of the lost state leads. *)
From Coq Require Import ZArith NArith Bool List.
From Mysync Require Import Gtid.Interval Gtid.GtidSet Base.Prog Base.ProgFacts Base.Config Env.World Procs.NodeOps Procs.Lost.
Import ListNotations.
Open Scope Z_scope.

(* C08 in the world: a FENCE decision of the lost state leaves the local server read-only (super_read_only too),
   whatever its flags were, master or replica, and the handler stays in the Lost state keeping its loss clock *)
Theorem fence_leaves_read_only local is_master la w : w_host w = local ->
  wout (wrun (lost_act local is_master (LdFence la)) w) = Done (StLost, la) /\
  s_ro (w_srv (wworld (wrun (lost_act local is_master (LdFence la)) w))) = true /\
  s_sro (w_srv (wworld (wrun (lost_act local is_master (LdFence la)) w))) = true.
Proof.
  intros <-. unfold lost_act. destruct is_master.
  - unfold fence_master, set_read_only_with_force, set_read_only_once, exec_, is_read_only, gtid_executed.
    repeat (first [rewrite N.eqb_refl | progress cbn [wrun wstep bind srv_step negb fst snd w_host w_srv with_ro s_ro s_sro Bool.eqb wout wworld lost_continue]]).
    auto.
  - unfold fence_replica, set_read_only, set_read_only_once, exec_, is_read_only, gtid_executed.
    repeat (first [rewrite N.eqb_refl | progress cbn [wrun wstep bind srv_step negb fst snd w_host w_srv with_ro s_ro s_sro Bool.eqb wout wworld]]).
    auto.
Qed.
