(* C20 for the background lag checker (Procs/LagCheck.v): it never crashes and it only reads. *)
From Coq Require Import ZArith NArith Bool List Lia.
From Mysync Require Import Gtid.Interval Gtid.GtidSet Base.Prog Base.ProgFacts Base.Config Procs.NodeOps Procs.ActiveNodes Procs.Switchover
  Procs.Repair Procs.Manager Procs.LagCheck Proofs.ManagerProofs Proofs.GatesProofs.
Import ListNotations.
Open Scope Z_scope.

Ltac lagnp := repeat first
  [ exact I
  | match goal with
    | |- nopanic (bind _ _) => apply nopanic_bind; [|intros ?]
    | |- nopanic (let '(_, _) := ?x in _) => destruct x
    | |- nopanic (match ?x with _ => _ end) => destruct x
    | |- nopanic (if ?x then _ else _) => destruct x
    | |- nopanic (Do _ _ _) => cbn [nopanic]; intros ?
    end ].

Theorem lag_check_nopanic bound local m : nopanic (lag_check bound local m).
Proof.
  unfold lag_check. apply nopanic_bind; [apply np_update_hosts|]. intros [ok m1]. destruct (negb ok); [exact I|].
  unfold replica_status, is_offline, is_read_only. lagnp.
Qed.

Ltac lagac := repeat first
  [ exact I
  | reflexivity
  | match goal with
    | |- allcalls _ (bind _ _) => apply allcalls_bind; [|intros ?]
    | |- allcalls _ (let '(_, _) := ?x in _) => destruct x
    | |- allcalls _ (match ?x with _ => _ end) => destruct x
    | |- allcalls _ (if ?x then _ else _) => destruct x
    | |- allcalls _ (Do _ _ _) => cbn [allcalls]; split; [|intros ?]
    end ].

(* every call of the checker is a read: it changes no server and writes nothing to the coordination service *)
Theorem lag_check_only_reads bound local m : allcalls (fun _ c => readb c = true) (lag_check bound local m).
Proof.
  unfold lag_check. apply allcalls_bind; [apply rd_update_hosts|]. intros [ok m1]. destruct (negb ok); [exact I|].
  unfold replica_status, is_offline, is_read_only. lagac.
Qed.
