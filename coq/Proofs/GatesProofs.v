(* C05, the whole iteration: the gates of stateManager (up to the repair tail) file an automatic
   failover request only after the maintenance record AND the pending-request key were both read
   as absent in the same iteration, and only through failure detection (hence through an approval). *)
From Coq Require Import ZArith NArith Bool List Lia.
From Mysync Require Import Gtid.Interval Gtid.GtidSet Pure.Quorum Pure.Desirable Base.Prog Base.ProgFacts Base.Hoare Base.Config
  Procs.NodeOps Procs.ActiveNodes Procs.Switchover Procs.DiskGuard Procs.OfflineMode Procs.Repair Procs.Optimization Procs.Manager
  Proofs.NodeOpsProofs Proofs.ActiveNodesProofs Proofs.SwitchoverProofs Proofs.DiskGuardProofs Proofs.RepairProofs
  Proofs.MasterLast Proofs.ManagerProofs Proofs.OutcomeProofs.
Import ListNotations.
Open Scope Z_scope.

Definition nofileb (c : call) : bool := match c with DcsCreate PSwitch _ => false | _ => true end.
Lemma nofileb_nofile c : nofileb c = true -> nofile c.
Proof. unfold nofile, is_file_request. destruct c; try (intros _ K; exact K). destruct p; try (intros _ K; exact K). discriminate. Qed.
Lemma calmb_nofile c : calmb c = true -> nofile c.
Proof. intros H. apply nofileb_nofile. destruct c; try reflexivity. destruct p; try reflexivity. cbn in H. discriminate H. Qed.
Lemma nf_of_calm {A} (p : prog A) : allcalls (fun _ c => calmb c = true) p -> allcalls (fun _ c => nofile c) p.
Proof. apply allcalls_impl. intros s c. apply calmb_nofile. Qed.
Lemma nf_of_b {A} (p : prog A) : allcalls (fun _ c => nofileb c = true) p -> allcalls (fun _ c => nofile c) p.
Proof. apply allcalls_impl. intros s c. apply nofileb_nofile. Qed.

Definition quiet_trace (tr : trace) : Prop := Forall (fun e => nofile (ev_call e)) tr.
Lemma qt_of {A} (p : prog A) tr o : allcalls (fun _ c => nofile c) p -> runs p tr o -> quiet_trace tr.
Proof. intros H R. exact (allcalls_sound _ p H tr o R). Qed.
Lemma qt_app a b : quiet_trace a -> quiet_trace b -> quiet_trace (a ++ b).
Proof. intros; apply Forall_app; split; assumption. Qed.
Lemma qt_no e tr : quiet_trace tr -> In e tr -> is_file_request (ev_call e) -> False.
Proof. intros Q Hi K. unfold quiet_trace in Q. rewrite Forall_forall in Q. exact (Q e Hi K). Qed.

(* ---- the sub-programs of the gates never file ---------------------------------- *)
Lemma CRn : forall h st0, stmt_reads st0 = true -> nofileb (Sql h st0) = true. Proof. reflexivity. Qed.
Lemma nf_cluster_state s hosts : allcalls (fun _ c => nofile c) (cluster_state_from_db s hosts).
Proof. apply nf_of_b. apply (c_cluster_state nofileb); first [exact CRn | intros; reflexivity]. Qed.
Lemma nf_cluster_state_dcs s hosts : allcalls (fun _ c => nofile c) (cluster_state_from_dcs s hosts).
Proof.
  unfold cluster_state_from_dcs. cbn [allcalls]. split; [|intros rs; destruct (existsb _ rs); exact I].
  induction hosts as [|[h c] r IH]; [exact I|]. cbn [map]. split; [|exact IH].
  unfold health_of. cbn [allcalls]. split; [nf|]. intros x. destruct x as [er| | | | | | | | | | | | | |]; try exact I; destruct er; exact I.
Qed.
Lemma nf_update_hosts m : allcalls (fun _ c => nofile c) (update_hosts_info m).
Proof. eapply allcalls_impl; [|apply rr_update_hosts]. intros s c H. destruct c; try nf; destruct p; try nf; destruct H. Qed.
Lemma nf_ensure cs : allcalls (fun _ c => nofile c) (ensure_current_master cs).
Proof. unfold ensure_current_master, dcs_set_. pac0; nf. Qed.
Lemma nf_get_master cs : allcalls (fun _ c => nofile c) (get_current_master cs).
Proof.
  unfold get_current_master. cbn [allcalls]. split; [nf|]. intros r.
  destruct r as [er| | | | | | | | | | |v| | |]; try exact I; try apply nf_ensure.
  - destruct er; first [exact I | apply nf_ensure].
  - destruct v; first [exact I | apply nf_ensure].
Qed.
Lemma nf_lock s : allcalls (fun _ c => nofile c) (lock_acquire s).
Proof. unfold lock_acquire. cbn [allcalls]. split; [nf|]. intros r. destruct r; exact I. Qed.
Lemma nf_set_maint s mt : allcalls (fun _ c => nofile c) (set_maintenance s mt).
Proof. unfold set_maintenance, dcs_set_. pac0; nf. Qed.
Lemma nf_enter cfg mt master known : allcalls (fun _ c => nofile c) (enter_maintenance cfg mt master known).
Proof. unfold enter_maintenance, set_maintenance, dcs_set_, dcs_delete_, exec_. pac0; nf. Qed.

Lemma nf_update_active cfg env mem : allcalls (fun _ c => nofile c) (update_active_nodes cfg env mem).
Proof.
  eapply allcalls_impl; [|apply update_active_nodes_calls]. intros s c H.
  destruct c; try nf; destruct p; try nf; destruct H.
Qed.
Lemma rs_ok_nofile h c : rs_ok h c -> nofile c.
Proof. intros H. destruct c; try nf; destruct p; try nf; destruct H. Qed.
Lemma nf_repair_master cfg env ms : allcalls (fun _ c => nofile c) (repair_master_node cfg env ms).
Proof.
  unfold repair_master_node. apply allcalls_bind.
  - eapply allcalls_impl; [|apply guard_allcalls]. intros s c H. destruct c; try nf; destruct p; try nf; destruct H.
  - intros _. cbn [allcalls]. split; [nf|intros; exact I].
Qed.
Lemma nf_repair_loop cfg env l : forall mem, allcalls (fun _ c => nofile c) (repair_cluster_loop cfg env l mem).
Proof.
  induction l as [|h r IH]; intros mem; cbn [repair_cluster_loop]; [exact I|].
  destruct (assoc h (re_state env)) as [ns|]; [|apply IH].
  destruct (negb (ns_ping_ok ns)); [apply IH|].
  destruct (N.eqb_spec h (re_master env)) as [E|NE].
  - apply allcalls_bind; [apply nf_repair_master|]. intros _. apply IH.
  - apply allcalls_bind; [|intros m; apply IH].
    eapply allcalls_impl; [|apply (repair_slave_calls cfg env h ns mem NE)]. intros s c. apply rs_ok_nofile.
Qed.
Lemma nf_repair_cluster cfg env mem : allcalls (fun _ c => nofile c) (repair_cluster cfg env mem).
Proof. apply nf_repair_loop. Qed.

Lemma nf_leave cfg env m : allcalls (fun _ c => nofile c) (leave_maintenance cfg env m).
Proof.
  unfold leave_maintenance.
  apply allcalls_bind; [apply nf_update_hosts|]. intros [ok m1]. destruct (negb ok); [exact I|].
  apply allcalls_bind; [apply nf_cluster_state|]. intros cs.
  apply allcalls_bind; [apply nf_ensure|]. intros mr. destruct mr as [master| | |]; try exact I.
  2:{ cbn [allcalls]. split; [nf|intros; exact I]. }
  apply allcalls_bind; [apply nf_cluster_state_dcs|]. intros [csd|]; [|exact I].
  cbn [tail_envs].
  apply allcalls_bind; [apply nf_repair_cluster|]. intros rm.
  apply allcalls_bind; [apply nf_cluster_state|]. intros cs2.
  apply allcalls_bind; [apply nf_update_active|]. intros ua.
  destruct (fst ua); [|exact I].
  cbn [allcalls]. split; [nf|]. intros r.
  destruct r as [er| | | | | | | | | | |v| | |]; try exact I.
  - destruct er; exact I.
  - destruct v; try exact I. destruct l; [exact I|]. unfold dcs_delete_. pac0; nf.
Qed.
Lemma nf_try_leave cfg env m : allcalls (fun _ c => nofile c) (try_leave_maintenance cfg env m).
Proof.
  unfold try_leave_maintenance. apply allcalls_bind; [apply nf_lock|]. intros l. destruct l.
  - apply allcalls_bind; [apply nf_leave|]. intros r. destruct (fst r); [exact I|]. cbn [allcalls]. split; [nf|intros; exact I].
  - cbn [allcalls]. split; [nf|intros; exact I].
Qed.
Lemma nf_handle_maint cfg env m omt master : allcalls (fun _ c => nofile c) (handle_maintenance cfg env m omt master).
Proof.
  unfold handle_maintenance. destruct omt as [mt|]; [|exact I].
  destruct (mt_light mt).
  - destruct (mt_should_leave mt).
    + apply allcalls_bind; [apply nf_try_leave|]. intros; exact I.
    + destruct (negb (mt_paused mt)); [|exact I]. apply allcalls_bind; [apply nf_set_maint|]. intros; exact I.
  - destruct (negb (mt_paused mt)); [|exact I]. apply allcalls_bind; [apply nf_enter|]. intros; exact I.
Qed.

(* the handling of a pending request never files another one *)
Lemma finish_true_nofile sw : allcalls (fun _ c => nofile c) (finish_switchover sw true).
Proof. unfold finish_switchover, stop_timing, now_, dcs_get_time, dcs_delete_, dcs_set_. cbn [negb]. pac0; nf. Qed.
Theorem handle_switchover_quiet cfg env m cs active master sw tr o :
  runs (handle_switchover cfg env m cs active master sw) tr o -> quiet_trace tr.
Proof.
  unfold handle_switchover. intros H. apply run_now in H. destruct H as (e0 & tr0 & -> & Ec & H).
  assert (N0 : quiet_trace [e0]) by (constructor; [rewrite Ec; nf|constructor]).
  apply (qt_app [e0] tr0 N0).
  assert (FF : forall q oo, runs (finish_switchover sw false;;; Ret m) q oo -> quiet_trace q).
  { intros q oo R. eapply (qt_of _ q oo); [|exact R]. apply allcalls_bind; [apply nf_of_calm; apply finish_false_calm|intros; exact I]. }
  match type of H with runs (if ?c then _ else _) _ _ => destruct c end; [exact (FF _ _ H)|].
  destruct (approve_switchover cfg sw active cs); [exact (FF _ _ H)|].
  destruct (runs_bind_inv _ _ _ _ H) as [(t1 & t2 & st & R1 & R2 & ->)|(s & R1 & ->)].
  2:{ exact (qt_of _ _ _ (nf_of_calm _ (start_calm sw)) R1). }
  pose proof (qt_of _ _ _ (nf_of_calm _ (start_calm sw)) R1) as N1.
  apply qt_app; [exact N1|].
  destruct st as [sw1 e]. destruct e as [x|]; [cbn in R2; destruct R2 as [-> _]; constructor|].
  assert (PQ : forall q oo, runs (perform_switchover cfg {| se_old_master := master; se_all_hosts := all_hosts m; se_state := cs; se_active := active;
                         se_uuid_of := me_uuid_of env; se_emerge_file := f_emerge |} sw1 (mm_an m)) q oo -> quiet_trace q).
  { intros q oo R. pose proof (switchover_never_files _ _ _ _ _ _ R) as F. eapply Forall_impl; [|exact F].
    intros e K Hf. unfold is_file_request in Hf. destruct (ev_call e) eqn:E; try exact Hf. destruct p; try exact Hf. exact (K v E). }
  destruct (runs_bind_inv _ _ _ _ R2) as [(p1 & p2 & r & P1 & P2 & ->)|(s & P1 & ->)]; [|exact (PQ _ _ P1)].
  apply qt_app; [exact (PQ _ _ P1)|].
  destruct (lock_lost (fst r)); [cbn in P2; destruct P2 as [-> _]; constructor|].
  eapply (qt_of _ p2 o); [|exact P2].
  cbn [allcalls]. split; [nf|]. intros g.
  assert (F : allcalls (fun _ c => nofile c) (fail_switchover sw1;;; Ret (with_an m (snd r)))).
  { apply allcalls_bind; [apply nf_of_calm; apply fail_calm|intros; exact I]. }
  assert (G : allcalls (fun _ c => nofile c) (finish_switchover sw1 true;;; Ret (with_an m (snd r)))).
  { apply allcalls_bind; [apply finish_true_nofile|intros; exact I]. }
  destruct g as [er| | | | | | | | | | | | | |]; try (destruct (fst r); [exact G|exact F]).
  destruct er; try (destruct (fst r); [exact G|exact F]). exact I.
Qed.

(* ---- the theorem ------------------------------------------------------------------ *)
Definition read_absent (p : dpath) (e : event) : Prop := ev_call e = DcsGet p /\ ev_resp e = RErr ENotFound.

Theorem decide_files_only_with_gates_open cfg env m cs csd tr o :
  runs (manager_decide cfg env m cs csd) tr o ->
  forall e, In e tr -> is_file_request (ev_call e) ->
    (exists gm, In gm tr /\ read_absent PMaintenance gm) /\ (exists gs, In gs tr /\ read_absent PSwitch gs) /\
    exists master msd active m1 light tr_fd o_fd,
      light = false /\ incl tr_fd tr /\ In e tr_fd /\
      runs (failure_detection cfg cs msd active m1 master light) tr_fd o_fd.
Proof.
  unfold manager_decide. intros H e Hin Hf.
  (* read of the maintenance record *)
  cbn [runs] in H. destruct tr as [|em t4]; [destruct H|]. destruct H as (_ & Em & R2).
  destruct Hin as [<-|Hin]; [exfalso; rewrite Em in Hf; exact Hf|].
  set (rm := ev_resp em) in *.
  destruct (runs_bind_inv _ _ _ _ R2) as [(u1 & u2 & fe & F1 & F2 & ->)|(s & F1 & ->)].
  2:{ exfalso. assert (Q : quiet_trace t4).
      { eapply (qt_of _ _ _ _ F1). Unshelve. destruct (match rm with RVal (VMaint _) | RErr ENotFound => false | _ => true end); [|exact I].
        cbn [allcalls]. split; [nf|intros; exact I]. }
      exact (qt_no _ _ Q Hin Hf). }
  assert (QF : quiet_trace u1).
  { eapply (qt_of _ _ _ _ F1). Unshelve. destruct (match rm with RVal (VMaint _) | RErr ENotFound => false | _ => true end); [|exact I].
    cbn [allcalls]. split; [nf|intros; exact I]. }
  apply in_app_or in Hin. destruct Hin as [Hin|Hin]; [exfalso; exact (qt_no _ _ QF Hin Hf)|].
  destruct fe; [exfalso; cbn in F2; destruct F2 as [-> _]; destruct Hin|].
  destruct (match rm with RVal (VMaint _) | RErr ENotFound => false | _ => true end) eqn:Erf;
    [exfalso; cbn in F2; destruct F2 as [-> _]; destruct Hin|].
  destruct (match (match rm with RVal (VMaint mt) => Some mt | _ => None end) with Some mt => negb (mt_light mt) && mt_paused mt | None => false end) eqn:Eack;
    [exfalso; cbn in F2; destruct F2 as [-> _]; destruct Hin|].
  (* the master *)
  destruct (runs_bind_inv _ _ _ _ F2) as [(t1 & t2 & mr & R1 & R2' & ->)|(s & R1 & ->)].
  2:{ exfalso. exact (qt_no _ _ (qt_of _ _ _ (nf_get_master cs) R1) Hin Hf). }
  pose proof (qt_of _ _ _ (nf_get_master cs) R1) as Q1.
  apply in_app_or in Hin. destruct Hin as [Hin|Hin]; [exfalso; exact (qt_no _ _ Q1 Hin Hf)|].
  destruct mr as [master| | |].
  2,3,4: exfalso; try (cbn in R2'; destruct R2' as [-> _]; destruct Hin).
  2:{ cbn [runs] in R2'. destruct t2 as [|x t3]; [destruct R2'|]. destruct R2' as (_ & Ex & R2'). cbn in R2'. destruct R2' as [-> _].
      destruct Hin as [<-|[]]. rewrite Ex in Hf. exact Hf. }
  destruct (negb (mem_host master (map fst (all_hosts m)))); [exfalso; cbn in R2'; destruct R2' as [-> _]; destruct Hin|].
  (* read of the active list *)
  cbn [runs] in R2'. destruct t2 as [|ea t3]; [destruct R2'|]. destruct R2' as (_ & Ea & R2').
  destruct Hin as [<-|Hin]; [exfalso; rewrite Ea in Hf; exact Hf|].
  destruct (match ev_resp ea with RVal (VHosts l) => Some l | RErr ENotFound | RErr EMalformed | RVal _ => Some [] | _ => None end) as [active|];
    [|exfalso; cbn in R2'; destruct R2' as [-> _]; destruct Hin].
  rename R2' into F2'.
  destruct (runs_bind_inv _ _ _ _ F2') as [(h1 & h2 & mh & M1 & M2 & ->)|(s & M1 & ->)].
  2:{ exfalso. exact (qt_no _ _ (qt_of _ _ _ (nf_handle_maint _ _ _ _ _) M1) Hin Hf). }
  pose proof (qt_of _ _ _ (nf_handle_maint _ _ _ _ _) M1) as QM.
  apply in_app_or in Hin. destruct Hin as [Hin|Hin]; [exfalso; exact (qt_no _ _ QM Hin Hf)|].
  destruct (fst mh) as [nx|] eqn:Emh; [exfalso; cbn in M2; destruct M2 as [-> _]; destruct Hin|].
  (* read of the pending request *)
  cbn [runs] in M2. destruct h2 as [|es h3]; [destruct M2|]. destruct M2 as (_ & Es & M2).
  destruct Hin as [<-|Hin]; [exfalso; rewrite Es in Hf; exact Hf|].
  (* which branch can file: only after_requests, with light = false *)
  assert (AFTER : forall light tq oq, runs (after_requests cfg cs csd active (snd mh) master light) tq oq -> In e tq ->
            exists msd tr_fd o_fd, light = false /\ incl tr_fd tq /\ In e tr_fd /\
              runs (failure_detection cfg cs msd active (snd mh) master light) tr_fd o_fd).
  { intros light tq oq RA HinA. unfold after_requests in RA.
    destruct (assoc master csd) as [msd|]; [|exfalso; cbn in RA; destruct RA as [-> _]; destruct HinA].
    destruct (runs_bind_inv _ _ _ _ RA) as [(a1 & a2 & fd & A1 & A2 & ->)|(s & A1 & ->)].
    - assert (In e a1) as Hi1.
      { apply in_app_or in HinA. destruct HinA as [K|K]; [exact K|]. exfalso.
        destruct (fst fd); [cbn in A2; destruct A2 as [-> _]; destruct K|].
        destruct (assoc master cs) as [ms|]; [|cbn in A2; destruct A2 as [-> _]; destruct K].
        destruct (negb (ns_ping_ok ms)); cbn in A2; destruct A2 as [-> _]; destruct K. }
      destruct (failure_detection_files _ _ _ _ _ _ _ _ _ A1 e Hi1 Hf) as (Hl & _).
      exists msd, a1, (Done fd). split; [exact Hl|]. split; [intros x Hx; apply in_or_app; left; exact Hx|]. split; [exact Hi1|exact A1].
    - destruct (failure_detection_files _ _ _ _ _ _ _ _ _ A1 e HinA Hf) as (Hl & _).
      exists msd, tq, (Panicked s). split; [exact Hl|]. split; [apply incl_refl|]. split; [exact HinA|exact A1]. }
  assert (MAINT : rm = RErr ENotFound \/ exists mt, rm = RVal (VMaint mt) /\ mt_light mt = true).
  { destruct rm as [er| | | | | | | | | | |v| | |] eqn:Erm; try discriminate Erf.
    - destruct er; try discriminate Erf. left; reflexivity.
    - destruct v; try discriminate Erf. right. exists m0. split; [reflexivity|].
      (* a full-mode record makes handle_maintenance leave the iteration *)
      unfold handle_maintenance in M1. destruct (mt_light m0) eqn:El; [reflexivity|]. exfalso.
      destruct (negb (mt_paused m0)).
      + destruct (runs_bind_inv _ _ _ _ M1) as [(x1 & x2 & ee & _ & X2 & _)|(s & _ & K)]; [|discriminate K].
        cbn in X2. destruct X2 as [_ K]. inversion K as [K']. subst mh. cbn in Emh. destruct ee; discriminate Emh.
      + cbn in M1. destruct M1 as [_ K]. inversion K as [K']. subst mh. cbn in Emh. discriminate Emh. }
  set (light := match (match rm with RVal (VMaint mt) => Some mt | _ => None end) with Some mt => mt_light mt | None => false end) in *.
  assert (LIGHT : rm = RErr ENotFound -> light = false) by (intros ->; reflexivity).
  assert (LIGHT2 : forall mt, rm = RVal (VMaint mt) -> mt_light mt = true -> light = true) by (intros mt -> K; exact K).
  (* the two reads, for the conclusion *)
  assert (INm : In em (em :: u1 ++ t1 ++ ea :: h1 ++ es :: h3)) by (left; reflexivity).
  assert (INs : In es (em :: u1 ++ t1 ++ ea :: h1 ++ es :: h3)).
  { right. apply in_or_app; right. apply in_or_app; right. right. apply in_or_app; right. left; reflexivity. }
  assert (LIFT : forall tq, incl tq h3 -> incl tq (em :: u1 ++ t1 ++ ea :: h1 ++ es :: h3)).
  { intros tq Hq x Hx. right. apply in_or_app; right. apply in_or_app; right. right. apply in_or_app; right. right. apply Hq. exact Hx. }
  destruct (ev_resp es) as [er| | | | | | | | | | |v| | |] eqn:Ers;
    try (exfalso; cbn in M2; destruct M2 as [-> _]; destruct Hin; fail).
  - destruct er; try (exfalso; cbn in M2; destruct M2 as [-> _]; destruct Hin; fail).
    (* no pending request: after_requests *)
    destruct (AFTER _ _ _ M2 Hin) as (msd & tr_fd & o_fd & Hl & Hincl & Hie & Rfd).
    destruct MAINT as [En|(mt & En & Elt)]; [|rewrite (LIGHT2 mt En Elt) in Hl; discriminate Hl].
    split; [exists em; split; [exact INm|split; [exact Em|exact En]]|].
    split; [exists es; split; [exact INs|split; [exact Es|exact Ers]]|].
    exists master, msd, active, (snd mh), light, tr_fd, o_fd. split; [exact Hl|]. split; [apply LIFT; exact Hincl|]. split; [exact Hie|exact Rfd].
  - destruct v; try (exfalso; cbn in M2; destruct M2 as [-> _]; destruct Hin; fail).
    (* a pending request: either parked by light maintenance (then nothing is filed) or handled (never files) *)
    destruct (light && is_failover s) eqn:Epark.
    + destruct (AFTER _ _ _ M2 Hin) as (msd & tr_fd & o_fd & Hl & _). exfalso.
      apply andb_true_iff in Epark. destruct Epark as [K _]. rewrite Hl in K. discriminate K.
    + exfalso. destruct (runs_bind_inv _ _ _ _ M2) as [(q1 & q2 & m' & S1 & S2 & ->)|(s0 & S1 & ->)].
      * pose proof (handle_switchover_quiet _ _ _ _ _ _ _ _ _ S1) as QS. cbn in S2. destruct S2 as [-> _].
        rewrite app_nil_r in Hin. exact (qt_no _ _ QS Hin Hf).
      * exact (qt_no _ _ (handle_switchover_quiet _ _ _ _ _ _ _ _ _ S1) Hin Hf).
Qed.

Definition gates_open (cfg : config) (tr : trace) (e : event) : Prop :=
  (exists gm, In gm tr /\ read_absent PMaintenance gm) /\ (exists gs, In gs tr /\ read_absent PSwitch gs) /\
  exists cs master msd active m1 light tr_fd o_fd,
    light = false /\ incl tr_fd tr /\ In e tr_fd /\
    runs (failure_detection cfg cs msd active m1 master light) tr_fd o_fd.

Lemma gates_open_app_r cfg a b e : gates_open cfg b e -> gates_open cfg (a ++ b) e.
Proof.
  intros ((gm & Hm & Rm) & (gs & Hs & Rs) & cs & master & msd & active & m1 & light & tf & of & Hl & Hi & He & Rf).
  split; [exists gm; split; [apply in_or_app; right; exact Hm|exact Rm]|].
  split; [exists gs; split; [apply in_or_app; right; exact Hs|exact Rs]|].
  exists cs, master, msd, active, m1, light, tf, of. split; [exact Hl|]. split; [|split; [exact He|exact Rf]].
  intros x Hx. apply in_or_app; right. apply Hi. exact Hx.
Qed.

(* peel a quiet first part off a bind *)
Lemma peel {A B} cfg (p : prog A) (f : A -> prog B) tr o e :
  allcalls (fun _ c => nofile c) p -> runs (bind p f) tr o -> In e tr -> is_file_request (ev_call e) ->
  (forall a t2 , runs (f a) t2 o -> In e t2 -> gates_open cfg t2 e) -> gates_open cfg tr e.
Proof.
  intros Hq R Hin Hf K.
  destruct (runs_bind_inv _ _ _ _ R) as [(t1 & t2 & a & R1 & R2 & ->)|(s & R1 & ->)].
  - pose proof (qt_of _ _ _ Hq R1) as Q. apply in_app_or in Hin. destruct Hin as [Hin|Hin]; [exfalso; exact (qt_no _ _ Q Hin Hf)|].
    apply gates_open_app_r. exact (K a t2 R2 Hin).
  - exfalso. exact (qt_no _ _ (qt_of _ _ _ Hq R1) Hin Hf).
Qed.

Theorem gates_file_only_with_gates_open cfg env m tr o :
  runs (manager_gates cfg env m) tr o ->
  forall e, In e tr -> is_file_request (ev_call e) -> gates_open cfg tr e.
Proof.
  unfold manager_gates. intros H e Hin Hf.
  eapply (peel cfg _ _ tr o e); [| exact H | exact Hin | exact Hf |].
  { cbn [allcalls]. split; [nf|intros r; exact I]. }
  intros c t2 R2 Hin2. cbv beta in R2. destruct (negb c); [exfalso; cbn in R2; destruct R2 as [-> _]; destruct Hin2|].
  eapply (peel cfg _ _ t2 o e); [apply nf_lock | exact R2 | exact Hin2 | exact Hf |].
  intros l t3 R3 Hin3. cbv beta in R3. destruct (negb l); [exfalso; cbn in R3; destruct R3 as [-> _]; destruct Hin3|].
  eapply (peel cfg _ _ t3 o e); [apply nf_update_hosts | exact R3 | exact Hin3 | exact Hf |].
  intros u t4 R4 Hin4. cbv beta in R4.
  eapply (peel cfg _ _ t4 o e); [apply nf_cluster_state | exact R4 | exact Hin4 | exact Hf |].
  intros cs t5 R5 Hin5. cbv beta in R5.
  eapply (peel cfg _ _ t5 o e); [apply nf_cluster_state_dcs | exact R5 | exact Hin5 | exact Hf |].
  intros ocsd t6 R6 Hin6. cbv beta in R6. destruct ocsd as [csd|]; [|exfalso; cbn in R6; destruct R6 as [-> _]; destruct Hin6].
  destruct (decide_files_only_with_gates_open _ _ _ _ _ _ _ R6 e Hin6 Hf) as (Gm & Gs & master & msd & active & m1 & light & tf & of & Hl & Hi & He & Rf).
  split; [exact Gm|]. split; [exact Gs|]. exists cs, master, msd, active, m1, light, tf, of. auto.
Qed.

(* ================================================================ the repair tail *)
Ltac nfa := repeat first
  [ exact I
  | nf
  | match goal with
    | |- allcalls _ (bind _ _) => apply allcalls_bind; [|intros ?]
    | |- allcalls _ (match ?x with _ => _ end) => destruct x
    | |- allcalls _ (if ?x then _ else _) => destruct x
    | |- allcalls _ (let '(_, _) := ?x in _) => destruct x
    | |- allcalls _ (Do _ _ _) => cbn [allcalls]; split; [|intros ?]
    | |- allcalls _ (Ret _) => exact I
    | |- allcalls _ (Panic _) => exact I
    end ].

Lemma nf_exec s h st : allcalls (fun _ c => nofile c) (exec_ s h st).
Proof. unfold exec_. nfa. Qed.
Lemma nf_set_default h m : allcalls (fun _ c => nofile c) (set_default_repl_settings h m).
Proof. unfold set_default_repl_settings, repl_settings, exec_. nfa. Qed.
Lemma nf_opt_enable h : allcalls (fun _ c => nofile c) (opt_enable h).
Proof. unfold opt_enable. nfa. Qed.
Lemma nf_slave_offline cfg env h ns ms pending : allcalls (fun _ c => nofile c) (repair_slave_offline cfg env h ns ms pending).
Proof.
  unfold repair_slave_offline. destruct (slave_lag ns) as [lag|]; [|exact I].
  destruct (ns_offline ns && (lag <=? c_offline_disable_lag cfg)).
  - destruct (perm_broken ns); [exact I|]. cbn [allcalls]. split; [nf|]. intros r.
    destruct r as [er| | | | | | | | | | |v| | |]; try exact I. destruct v as [| | | | | | | | | | |status upd|]; try exact I.
    unfold startup_time. apply allcalls_bind; [nfa|]. intros st. destruct (snd st); [exact I|].
    destruct (status || (upd <? fst st)); [exact I|].
    apply allcalls_bind; [apply nf_set_default|]. intros _. apply allcalls_bind; [apply nf_exec|]. intros; exact I.
  - apply allcalls_bind.
    { destruct (negb (ns_offline ns) && negb (ns_ro ms) && (c_offline_enable_lag cfg <? lag)); [|exact I].
      destruct (can_set_offline cfg env h pending); [|exact I].
      apply allcalls_bind; [apply nf_exec|]. intros [e|]; [exact I|]. apply allcalls_bind; [apply nf_opt_enable|]. intros; exact I. }
    intros p1. destruct (negb (perm_broken ns)); [exact I|].
    unfold now_, dcs_set_, exec_. nfa.
Qed.
Lemma nf_offline_loop cfg env ms l : forall pending, allcalls (fun _ c => nofile c) (repair_offline_loop cfg env ms l pending).
Proof.
  induction l as [|h r IH]; intros pending; cbn [repair_offline_loop]; [exact I|].
  destruct (assoc h (oe_state env)) as [ns|]; [|apply IH]. destruct (negb (ns_ping_ok ns)); [apply IH|].
  destruct (N.eqb h (oe_master env)).
  - apply allcalls_bind; [|intros; apply IH]. unfold repair_master_offline, is_recovery_needed, exec_. nfa.
  - destruct ms as [m|]; [|exact I]. apply allcalls_bind; [apply nf_slave_offline|]. intros p. apply IH.
Qed.
Lemma nf_offline_mode cfg env : allcalls (fun _ c => nofile c) (repair_offline_mode cfg env).
Proof. apply nf_offline_loop. Qed.

Lemma nf_set_rs s1 s2 h rs : allcalls (fun _ c => nofile c) (set_repl_settings s1 s2 h rs).
Proof. unfold set_repl_settings, exec_. nfa. Qed.
Lemma nf_stop_nodes env l rs : allcalls (fun _ c => nofile c) (stop_nodes env l rs).
Proof.
  induction l as [|h r IH]; cbn [stop_nodes]; [exact I|]. destruct (mem_host h (ov_cluster env)); [|exact IH].
  apply allcalls_bind; [apply nf_set_rs|]. intros [e|]; [exact I|exact IH].
Qed.
Lemma nf_delete_hosts l : allcalls (fun _ c => nofile c) (delete_hosts l).
Proof.
  induction l as [|h r IH]; cbn [delete_hosts]; [exact I|].
  apply allcalls_bind; [unfold opt_delete_host; nfa|]. intros [e|]; [exact I|exact IH].
Qed.
Lemma nf_optimize h : allcalls (fun _ c => nofile c) (optimize_replication h).
Proof. unfold optimize_replication, exec_. nfa. Qed.
Lemma nf_sync_node env h : allcalls (fun _ c => nofile c) (sync_node_options env h).
Proof.
  unfold sync_node_options. destruct (negb (mem_host h (ov_cluster env))); [exact I|].
  apply allcalls_bind; [unfold repl_settings; nfa|]. intros r. destruct (snd r); [exact I|]. destruct (can_be_optimized (fst r)); [apply nf_optimize|exact I].
Qed.
Lemma nf_read_states env mrs l : forall p, allcalls (fun _ c => nofile c) (read_states env mrs l p).
Proof.
  induction l as [|h r IH]; intros p; cbn [read_states]; [exact I|].
  apply allcalls_bind; [unfold opt_get_state; nfa|]. intros [a e].
  destruct a as [[en|]|]; destruct e; try exact I; try apply IH.
Qed.
Lemma nf_opt_sync env : allcalls (fun _ c => nofile c) (opt_sync env).
Proof.
  unfold opt_sync. apply allcalls_bind.
  { unfold master_settings. destruct (match assoc (ov_master env) (ov_states env) with Some ns => ns_repl_settings ns | None => None end); [exact I|].
    destruct (mem_host _ _); [unfold repl_settings; nfa|exact I]. }
  intros m. destruct (snd m); [exact I|]. unfold sync_with.
  apply allcalls_bind; [unfold dcs_children_; nfa|]. intros hs. destruct (snd hs); [exact I|].
  apply allcalls_bind; [apply nf_read_states|]. intros r. destruct r as [p|e]; try exact I.
  unfold sync_act. apply allcalls_bind.
  { unfold disable_nodes. destruct (op_optimized p ++ op_malf p) eqn:E; [exact I|]. rewrite <- E.
    apply allcalls_bind; [apply nf_stop_nodes|]. intros [x|]; [exact I|apply nf_delete_hosts]. }
  intros [x|]; [exact I|]. unfold balance.
  destruct (op_optimizing p) as [|h [|h2 rest]].
  - destruct (op_disabled p) as [|d r]; [exact I|]. destruct (mem_host d (ov_cluster env)); [apply nf_optimize|exact I].
  - apply nf_sync_node.
  - apply allcalls_bind; [apply nf_stop_nodes|]. intros [x|]; [exact I|apply nf_sync_node].
Qed.

(* the tail files a request only in its crash-recovery block: light maintenance off and an approval *)
Theorem tail_files_only_when_approved cfg env m c tr o :
  runs (manager_tail cfg env m c) tr o ->
  forall e, In e tr -> is_file_request (ev_call e) ->
    tc_light c = false /\
    (exists t, ev_call e = DcsCreate PSwitch (auto_request (tc_master c) t)) /\
    exists msd m1 tr_a, assoc (tc_master c) (tc_csd c) = Some msd /\
      runs (approve_failover cfg (tc_cs c) msd (tc_active c) m1 (tc_master c)) tr_a (Done true) /\ incl tr_a tr.
Proof.
  unfold manager_tail. intros H e Hin Hf.
  destruct (tail_envs env (tc_cs c) (tc_csd c) (tc_master c) (tc_active c)) as [[oenv renv] aenv].
  destruct (runs_bind_inv _ _ _ _ H) as [(t1 & t2 & u & R1 & R2 & ->)|(s & R1 & ->)].
  2:{ exfalso. exact (qt_no _ _ (qt_of _ _ _ (nf_offline_mode cfg oenv) R1) Hin Hf). }
  pose proof (qt_of _ _ _ (nf_offline_mode cfg oenv) R1) as Q1.
  apply in_app_or in Hin. destruct Hin as [Hin|Hin]; [exfalso; exact (qt_no _ _ Q1 Hin Hf)|].
  destruct (runs_bind_inv _ _ _ _ R2) as [(r1 & r2 & rm & C1 & C2 & ->)|(s & C1 & ->)].
  2:{ exfalso. exact (qt_no _ _ (qt_of _ _ _ (nf_repair_cluster cfg renv _) C1) Hin Hf). }
  pose proof (qt_of _ _ _ (nf_repair_cluster cfg renv _) C1) as Q2.
  apply in_app_or in Hin. destruct Hin as [Hin|Hin]; [exfalso; exact (qt_no _ _ Q2 Hin Hf)|].
  destruct (assoc (tc_master c) (tc_csd c)) as [msd|] eqn:Emsd; [|exfalso; cbn in C2; destruct C2 as [-> _]; destruct Hin].
  destruct (runs_bind_inv _ _ _ _ C2) as [(f1 & f2 & filed & F1 & F2 & ->)|(s & F1 & ->)].
  - (* the rest never files *)
    assert (QR : quiet_trace f2).
    { destruct filed; [cbn in F2; destruct F2 as [-> _]; constructor|].
      eapply (qt_of _ _ _ _ F2). Unshelve.
      apply allcalls_bind; [apply nf_update_active|]. intros ua.
      apply allcalls_bind; [destruct (c_repl_mon cfg); [cbn [allcalls]; split; [nf|intros; exact I]|exact I]|]. intros _.
      apply allcalls_bind; [apply nf_opt_sync|]. intros; exact I. }
    apply in_app_or in Hin. destruct Hin as [Hin|Hin]; [|exfalso; exact (qt_no _ _ QR Hin Hf)].
    assert (LIFT : forall q, incl q f1 -> incl q (t1 ++ r1 ++ f1 ++ f2)).
    { intros q Hq x Hx. apply in_or_app; right. apply in_or_app; right. apply in_or_app; left. apply Hq. exact Hx. }
    clear F2 QR. revert F1. generalize (Done (A:=bool) filed) as ofd. intros ofd F1.
    destruct (c_resetup_crashed cfg && (1 <? count_ha_nodes (tc_cs c)) && crash_recovered cfg msd);
      [|exfalso; cbn in F1; destruct F1 as [-> _]; destruct Hin].
    destruct (tc_light c); [exfalso; cbn in F1; destruct F1 as [-> _]; destruct Hin|].
    split; [reflexivity|].
    destruct (runs_bind_inv _ _ _ _ F1) as [(a1 & a2 & ap & A1 & A2 & ->)|(s & A1 & ->)].
    2:{ exfalso. exact (qt_no _ _ (qt_of _ _ _ (nf_approve _ _ _ _ _ _) A1) Hin Hf). }
    pose proof (qt_of _ _ _ (nf_approve _ _ _ _ _ _) A1) as QA.
    apply in_app_or in Hin. destruct Hin as [Hin|Hin]; [exfalso; exact (qt_no _ _ QA Hin Hf)|].
    destruct ap; [|exfalso; cbn in A2; destruct A2 as [-> _]; destruct Hin].
    split.
    + destruct (runs_bind_inv _ _ _ _ A2) as [(i1 & i2 & x & I1 & I2 & ->)|(s & I1 & ->)].
      * cbn in I2. destruct I2 as [-> _]. rewrite app_nil_r in Hin. exact (issue_failover_events _ _ _ I1 e Hin Hf).
      * exact (issue_failover_events _ _ _ I1 e Hin Hf).
    + exists msd, m, a1. split; [reflexivity|]. split; [exact A1|]. apply LIFT. intros x Hx. apply in_or_app; left; exact Hx.
  - (* the block itself panicked: cannot happen after a filing only if ... handle generally *)
    destruct (c_resetup_crashed cfg && (1 <? count_ha_nodes (tc_cs c)) && crash_recovered cfg msd);
      [|exfalso; cbn in F1; destruct F1 as [-> K]; discriminate K].
    destruct (tc_light c); [exfalso; cbn in F1; destruct F1 as [-> K]; discriminate K|].
    split; [reflexivity|].
    destruct (runs_bind_inv _ _ _ _ F1) as [(a1 & a2 & ap & A1 & A2 & E)|(s0 & A1 & E)].
    2:{ exfalso. subst. exact (qt_no _ _ (qt_of _ _ _ (nf_approve _ _ _ _ _ _) A1) Hin Hf). }
    subst. pose proof (qt_of _ _ _ (nf_approve _ _ _ _ _ _) A1) as QA.
    apply in_app_or in Hin. destruct Hin as [Hin|Hin]; [exfalso; exact (qt_no _ _ QA Hin Hf)|].
    destruct ap; [|exfalso; cbn in A2; destruct A2 as [-> _]; destruct Hin].
    split.
    + destruct (runs_bind_inv _ _ _ _ A2) as [(i1 & i2 & x & I1 & I2 & ->)|(s1 & I1 & _)].
      * cbn in I2. destruct I2 as [-> _]. rewrite app_nil_r in Hin. exact (issue_failover_events _ _ _ I1 e Hin Hf).
      * exact (issue_failover_events _ _ _ I1 e Hin Hf).
    + exists msd, m, a1. split; [reflexivity|]. split; [exact A1|].
      intros x Hx. apply in_or_app; right. apply in_or_app; right. apply in_or_app; left; exact Hx.
Qed.

(* the gates hand over to the tail with light maintenance off only after both reads came back absent *)
Lemma decide_tail_context cfg env m cs csd tr c m' :
  runs (manager_decide cfg env m cs csd) tr (Done (GTail c, m')) -> tc_light c = false ->
  (exists gm, In gm tr /\ read_absent PMaintenance gm) /\ (exists gs, In gs tr /\ read_absent PSwitch gs).
Proof.
  unfold manager_decide. intros H Hl.
  cbn [runs] in H. destruct tr as [|em t4]; [destruct H|]. destruct H as (_ & Em & R2).
  set (rm := ev_resp em) in *.
  destruct (runs_bind_inv _ _ _ _ R2) as [(u1 & u2 & fe & F1 & F2 & ->)|(s & _ & K)]; [|discriminate K].
  destruct fe; [cbn in F2; destruct F2 as [_ K]; discriminate K|].
  destruct (match rm with RVal (VMaint _) | RErr ENotFound => false | _ => true end) eqn:Erf;
    [cbn in F2; destruct F2 as [_ K]; discriminate K|].
  destruct (match (match rm with RVal (VMaint mt) => Some mt | _ => None end) with Some mt => negb (mt_light mt) && mt_paused mt | None => false end) eqn:Eack;
    [cbn in F2; destruct F2 as [_ K]; discriminate K|].
  destruct (runs_bind_inv _ _ _ _ F2) as [(t1 & t2 & mr & R1 & R2' & ->)|(s & _ & K)]; [|discriminate K].
  destruct mr as [master| | |]; try (cbn in R2'; destruct R2' as [_ K]; discriminate K).
  2:{ cbn [runs] in R2'. destruct t2 as [|x t3]; [destruct R2'|]. destruct R2' as (_ & _ & R2'). cbn in R2'. destruct R2' as [_ K]; discriminate K. }
  destruct (negb (mem_host master (map fst (all_hosts m)))); [cbn in R2'; destruct R2' as [_ K]; discriminate K|].
  cbn [runs] in R2'. destruct t2 as [|ea t3]; [destruct R2'|]. destruct R2' as (_ & Ea & R2').
  destruct (match ev_resp ea with RVal (VHosts l) => Some l | RErr ENotFound | RErr EMalformed | RVal _ => Some [] | _ => None end) as [active|];
    [|cbn in R2'; destruct R2' as [_ K]; discriminate K].
  rename R2' into F2'.
  destruct (runs_bind_inv _ _ _ _ F2') as [(h1 & h2 & mh & M1 & M2 & ->)|(s & _ & K)]; [|discriminate K].
  destruct (fst mh) as [nx|] eqn:Emh; [cbn in M2; destruct M2 as [_ K]; discriminate K|].
  cbn [runs] in M2. destruct h2 as [|es h3]; [destruct M2|]. destruct M2 as (_ & Es & M2).
  set (light := match (match rm with RVal (VMaint mt) => Some mt | _ => None end) with Some mt => mt_light mt | None => false end) in *.
  (* after_requests hands its own light flag to the tail *)
  assert (AFTER : forall lt tq, runs (after_requests cfg cs csd active (snd mh) master lt) tq (Done (GTail c, m')) -> tc_light c = lt).
  { intros lt tq RA. unfold after_requests in RA.
    destruct (assoc master csd) as [msd|]; [|cbn in RA; destruct RA as [_ K]; discriminate K].
    destruct (runs_bind_inv _ _ _ _ RA) as [(a1 & a2 & fd & _ & A2 & _)|(s & _ & K)]; [|discriminate K].
    destruct (fst fd); [cbn in A2; destruct A2 as [_ K]; discriminate K|].
    destruct (assoc master cs) as [ms|]; [|cbn in A2; destruct A2 as [_ K]; discriminate K].
    destruct (negb (ns_ping_ok ms)); cbn in A2; destruct A2 as [_ K]; inversion K; reflexivity. }
  assert (MAINT : light = false -> rm = RErr ENotFound).
  { intros Hlf. destruct rm as [er| | | | | | | | | | |v| | |] eqn:Erm; try discriminate Erf.
    - destruct er; try discriminate Erf. reflexivity.
    - destruct v; try discriminate Erf. exfalso. unfold light in Hlf. cbn in Hlf.
      unfold handle_maintenance in M1. cbv iota beta in M1. rewrite Hlf in M1.
      destruct (negb (mt_paused m0)).
      + destruct (runs_bind_inv _ _ _ _ M1) as [(x1 & x2 & ee & _ & X2 & _)|(s & _ & K)]; [|discriminate K].
        cbn in X2. destruct X2 as [_ K]. inversion K as [K']. subst mh. cbn in Emh. destruct ee; discriminate Emh.
      + cbn in M1. destruct M1 as [_ K]. inversion K as [K']. subst mh. cbn in Emh. discriminate Emh. }
  assert (INm : In em (em :: u1 ++ t1 ++ ea :: h1 ++ es :: h3)) by (left; reflexivity).
  assert (INs : In es (em :: u1 ++ t1 ++ ea :: h1 ++ es :: h3)).
  { right. apply in_or_app; right. apply in_or_app; right. right. apply in_or_app; right. left; reflexivity. }
  destruct (ev_resp es) as [er| | | | | | | | | | |v| | |] eqn:Ers;
    try (cbn in M2; destruct M2 as [_ K]; discriminate K).
  - destruct er; try (cbn in M2; destruct M2 as [_ K]; discriminate K).
    pose proof (AFTER _ _ M2) as E. rewrite Hl in E. symmetry in E.
    split; [exists em; split; [exact INm|split; [exact Em|exact (MAINT E)]]|].
    exists es. split; [exact INs|split; [exact Es|exact Ers]].
  - destruct v; try (cbn in M2; destruct M2 as [_ K]; discriminate K).
    destruct (light && is_failover s) eqn:Epark.
    + pose proof (AFTER _ _ M2) as E. rewrite Hl in E. apply andb_true_iff in Epark. destruct Epark as [K _]. rewrite <- E in K. discriminate K.
    + destruct (runs_bind_inv _ _ _ _ M2) as [(q1 & q2 & mm & _ & S2 & _)|(s0 & _ & K)]; [|discriminate K].
      cbn in S2. destruct S2 as [_ K]. discriminate K.
Qed.

Lemma gates_tail_context cfg env m tr c m' :
  runs (manager_gates cfg env m) tr (Done (GTail c, m')) -> tc_light c = false ->
  (exists gm, In gm tr /\ read_absent PMaintenance gm) /\ (exists gs, In gs tr /\ read_absent PSwitch gs).
Proof.
  unfold manager_gates. intros H Hl.
  assert (LIFT : forall a b, ((exists gm, In gm b /\ read_absent PMaintenance gm) /\ (exists gs, In gs b /\ read_absent PSwitch gs)) ->
                 ((exists gm, In gm (a ++ b) /\ read_absent PMaintenance gm) /\ (exists gs, In gs (a ++ b) /\ read_absent PSwitch gs))).
  { intros a b [(gm & Hm & Rm) (gs & Hs & Rs)]. split; [exists gm|exists gs]; (split; [apply in_or_app; right; assumption|assumption]). }
  destruct (runs_bind_inv _ _ _ _ H) as [(a1 & b1 & c0 & _ & R2 & ->)|(s & _ & K)]; [|discriminate K]. apply LIFT. clear H.
  destruct (negb c0); [cbn in R2; destruct R2 as [_ K]; discriminate K|].
  destruct (runs_bind_inv _ _ _ _ R2) as [(a2 & b2 & l & _ & R3 & ->)|(s & _ & K)]; [|discriminate K]. apply LIFT. clear R2.
  destruct (negb l); [cbn in R3; destruct R3 as [_ K]; discriminate K|].
  destruct (runs_bind_inv _ _ _ _ R3) as [(a3 & b3 & u & _ & R4 & ->)|(s & _ & K)]; [|discriminate K]. apply LIFT. clear R3.
  destruct (runs_bind_inv _ _ _ _ R4) as [(a4 & b4 & cs & _ & R5 & ->)|(s & _ & K)]; [|discriminate K]. apply LIFT. clear R4.
  destruct (runs_bind_inv _ _ _ _ R5) as [(a5 & b5 & ocsd & _ & R6 & ->)|(s & _ & K)]; [|discriminate K]. apply LIFT. clear R5.
  destruct ocsd as [csd|]; [|cbn in R6; destruct R6 as [_ K]; discriminate K].
  exact (decide_tail_context _ _ _ _ _ _ _ _ R6 Hl).
Qed.

(* ---- the whole iteration: a request is filed only with the maintenance record and the pending-request key
   both read as absent earlier in the same iteration *)
Theorem iteration_files_only_with_gates_open cfg env m tr o :
  runs (state_manager cfg env m) tr o ->
  forall e, In e tr -> is_file_request (ev_call e) ->
    (exists gm, In gm tr /\ read_absent PMaintenance gm) /\ (exists gs, In gs tr /\ read_absent PSwitch gs).
Proof.
  unfold state_manager. intros H e Hin Hf.
  destruct (runs_bind_inv _ _ _ _ H) as [(t1 & t2 & g & R1 & R2 & ->)|(s & R1 & ->)].
  - apply in_app_or in Hin. destruct Hin as [Hin|Hin].
    + destruct (gates_file_only_with_gates_open _ _ _ _ _ R1 e Hin Hf) as ((gm & Hm & Rm) & (gs & Hs & Rs) & _).
      split; [exists gm|exists gs]; (split; [apply in_or_app; left; assumption|assumption]).
    + destruct g as [gr mg]. cbn [fst snd] in R2. destruct gr as [n|c]; [cbn in R2; destruct R2 as [-> _]; destruct Hin|].
      assert (L : tc_light c = false).
      { destruct (runs_bind_inv _ _ _ _ R2) as [(q1 & q2 & mm & T1 & T2 & ->)|(s & T1 & ->)].
        - cbn in T2. destruct T2 as [-> _]. rewrite app_nil_r in Hin. exact (proj1 (tail_files_only_when_approved _ _ _ _ _ _ T1 e Hin Hf)).
        - exact (proj1 (tail_files_only_when_approved _ _ _ _ _ _ T1 e Hin Hf)). }
      destruct (gates_tail_context _ _ _ _ _ _ R1 L) as [(gm & Hm & Rm) (gs & Hs & Rs)].
      split; [exists gm|exists gs]; (split; [apply in_or_app; left; assumption|assumption]).
  - destruct (gates_file_only_with_gates_open _ _ _ _ _ R1 e Hin Hf) as (Gm & Gs & _). split; assumption.
Qed.

(* ================================================================ C09: the manager iteration under acknowledged full maintenance
   A process that runs stateManager (e.g. it was restarted) while full maintenance is acknowledged only READS:
   it refreshes the registry, looks at the servers and the health records, reads the maintenance record - and goes
   to the paused state.  (Before the repairs b339185 / 38205c1 in /repo the master key was looked up first and a
   missing or unreadable key was re-learned and WRITTEN before the maintenance record was looked at; the proof
   needed "the master key is readable" as a hypothesis - see DESIGN.md, C09.) *)
Definition readb (c : call) : bool :=
  match c with
  | Sql _ st => stmt_reads st
  | DcsGet _ | DcsChildren _ | LockAcquire | DcsConnected | Now | FileExists _ | Peek _ => true
  | _ => false
  end.
Definition only_reads (tr : trace) : Prop := Forall (fun e => readb (ev_call e) = true) tr.
Lemma or_of {A} (p : prog A) tr o : allcalls (fun _ c => readb c = true) p -> runs p tr o -> only_reads tr.
Proof. intros H R. exact (allcalls_sound _ p H tr o R). Qed.
Lemma or_app a b : only_reads a -> only_reads b -> only_reads (a ++ b).
Proof. intros; apply Forall_app; split; assumption. Qed.

Lemma rd_cluster_state s hosts : allcalls (fun _ c => readb c = true) (cluster_state_from_db s hosts).
Proof. apply (c_cluster_state readb); first [intros h st H; exact H | intros; reflexivity]. Qed.
Lemma rd_cluster_state_dcs s hosts : allcalls (fun _ c => readb c = true) (cluster_state_from_dcs s hosts).
Proof.
  unfold cluster_state_from_dcs. cbn [allcalls]. split; [|intros rs; destruct (existsb _ rs); exact I].
  induction hosts as [|[h c] r IH]; [exact I|]. cbn [map]. split; [|exact IH].
  unfold health_of. cbn [allcalls]. split; [reflexivity|]. intros x. destruct x as [er| | | | | | | | | | | | | |]; try exact I; destruct er; exact I.
Qed.
Lemma rd_update_hosts m : allcalls (fun _ c => readb c = true) (update_hosts_info m).
Proof. eapply allcalls_impl; [|apply rr_update_hosts]. intros s c H. destruct c; try destruct H; try reflexivity; destruct p; try destruct H; reflexivity. Qed.

Lemma um_update_hosts m : allcalls (fun _ c => c <> DcsGet PMaintenance) (update_hosts_info m).
Proof.
  unfold update_hosts_info, children_or_empty. cbn [bind allcalls]. split; [discriminate|]. intros r.
  assert (CC : forall l, allcalls (fun _ c => c <> DcsGet PMaintenance) (cascade_configs l)).
  { induction l as [|h t IH]; [exact I|]. cbn [cascade_configs allcalls]. split; [discriminate|]. intros x. destruct x; try exact I. destruct v; try exact I. exact IH. }
  destruct r as [er| | | | | | | | | | | |l| |]; cbn [bind]; try exact I.
  - destruct er; cbn [bind]; try exact I. cbn [allcalls]. split; [discriminate|]. intros r2.
    destruct r2 as [er2| | | | | | | | | | | |l2| |]; cbn [bind]; try exact I.
    + destruct er2; cbn [bind]; try exact I.
    + apply allcalls_bind; [apply CC|]. intros [|]; exact I.
  - cbn [allcalls]. split; [discriminate|]. intros r2.
    destruct r2 as [er2| | | | | | | | | | | |l2| |]; cbn [bind]; try exact I.
    + destruct er2; cbn [bind]; try exact I.
    + apply allcalls_bind; [apply CC|]. intros [|]; exact I.
Qed.

Lemma um_cluster_state_dcs s hosts : allcalls (fun _ c => c <> DcsGet PMaintenance) (cluster_state_from_dcs s hosts).
Proof.
  unfold cluster_state_from_dcs. cbn [allcalls]. split; [|intros rs; destruct (existsb _ rs); exact I].
  induction hosts as [|[h c] r IH]; [exact I|]. cbn [map]. split; [|exact IH].
  unfold health_of. cbn [allcalls]. split; [discriminate|]. intros x. destruct x as [er| | | | | | | | | | | | | |]; try exact I; destruct er; exact I.
Qed.

Theorem manager_frozen_when_acknowledged cfg env m tr o :
  runs (manager_gates cfg env m) tr o ->
  (forall e, In e tr -> ev_call e = DcsGet PMaintenance ->
     exists mt, ev_resp e = RVal (VMaint mt) /\ mt_light mt = false /\ mt_paused mt = true) ->
  only_reads tr /\ (forall c m', o <> Done (GTail c, m')) /\
  (forall e, In e tr -> ev_call e = DcsGet PMaintenance -> exists m', o = Done (GNext NxMaintenance, m')).
Proof.
  unfold manager_gates. intros H Hmaint.
  (* DcsConnected *)
  cbn [bind runs] in H. destruct tr as [|e0 tr0]; [destruct H|]. destruct H as (_ & Ec0 & H).
  assert (R0 : readb (ev_call e0) = true) by (rewrite Ec0; reflexivity).
  assert (NM0 : ev_call e0 <> DcsGet PMaintenance) by (rewrite Ec0; discriminate).
  assert (WRAP : forall t, (only_reads t /\ (forall c m', o <> Done (GTail c, m')) /\
                   (forall e, In e t -> ev_call e = DcsGet PMaintenance -> exists m', o = Done (GNext NxMaintenance, m'))) ->
                 (only_reads (e0 :: t) /\ (forall c m', o <> Done (GTail c, m')) /\
                   (forall e, In e (e0 :: t) -> ev_call e = DcsGet PMaintenance -> exists m', o = Done (GNext NxMaintenance, m')))).
  { intros t (A & B & C). split; [constructor; assumption|]. split; [exact B|]. intros e [<-|Hi] He; [contradiction|exact (C e Hi He)]. }
  apply WRAP. clear WRAP.
  assert (Hmaint0 : forall e, In e tr0 -> ev_call e = DcsGet PMaintenance -> exists mt, ev_resp e = RVal (VMaint mt) /\ mt_light mt = false /\ mt_paused mt = true) by (intros e Hi; apply Hmaint; right; exact Hi).
  clear Hmaint R0 NM0 Ec0.
  (* a generic step: a read-only first part that does not read the maintenance record *)
  assert (STEP : forall (A : Type) (p : prog A) (f : A -> prog (gate_res * mgr_mem)) t,
     allcalls (fun _ c => readb c = true /\ c <> DcsGet PMaintenance) p ->
     runs (bind p f) t o ->
     (forall e, In e t -> ev_call e = DcsGet PMaintenance -> exists mt, ev_resp e = RVal (VMaint mt) /\ mt_light mt = false /\ mt_paused mt = true) ->
     (forall a t2, runs (f a) t2 o ->
        (forall e, In e t2 -> ev_call e = DcsGet PMaintenance -> exists mt, ev_resp e = RVal (VMaint mt) /\ mt_light mt = false /\ mt_paused mt = true) ->
        only_reads t2 /\ (forall c m', o <> Done (GTail c, m')) /\
        (forall e, In e t2 -> ev_call e = DcsGet PMaintenance -> exists m', o = Done (GNext NxMaintenance, m'))) ->
     only_reads t /\ (forall c m', o <> Done (GTail c, m')) /\
     (forall e, In e t -> ev_call e = DcsGet PMaintenance -> exists m', o = Done (GNext NxMaintenance, m'))).
  { intros A p f t Hq R HMt K.
    destruct (runs_bind_inv _ _ _ _ R) as [(t1 & t2 & a & R1 & R2 & ->)|(s & R1 & ->)].
    - pose proof (allcalls_sound _ p Hq t1 _ R1) as F.
      destruct (K a t2 R2 (fun e Hi => HMt e (in_or_app _ _ _ (or_intror Hi)))) as (A1 & B1 & C1).
      split; [apply or_app; [eapply Forall_impl; [|exact F]; intros e [X _]; exact X|exact A1]|]. split; [exact B1|].
      intros e Hi He. apply in_app_or in Hi. destruct Hi as [Hi|Hi]; [|exact (C1 e Hi He)].
      exfalso. rewrite Forall_forall in F. destruct (F e Hi) as [_ X]. exact (X He).
    - pose proof (allcalls_sound _ p Hq t _ R1) as F.
      split; [eapply Forall_impl; [|exact F]; intros e [X _]; exact X|]. split; [discriminate|].
      intros e Hi He. exfalso. rewrite Forall_forall in F. destruct (F e Hi) as [_ X]. exact (X He). }
  assert (NOM : forall (A : Type) (p : prog A), allcalls (fun _ c => readb c = true) p ->
                 allcalls (fun _ c => c <> DcsGet PMaintenance) p -> allcalls (fun _ c => readb c = true /\ c <> DcsGet PMaintenance) p).
  { intros A p. revert A p. fix F 2. intros A p. destruct p as [a|s|s c k|s bs k]; cbn [allcalls]; intros H1 H2; auto.
    - destruct H1 as [a1 k1]. destruct H2 as [a2 k2]. split; [split; assumption|]. intros r. apply F; [apply k1|apply k2].
    - destruct H1 as [b1 k1]. destruct H2 as [b2 k2]. split; [|intros rs; apply F; [apply k1|apply k2]].
      clear k1 k2. induction bs as [|[h b] r IH]; [exact I|]. destruct b1 as [x1 y1]. destruct b2 as [x2 y2]. split; [apply F; assumption|apply IH; assumption]. }
  assert (ENDS : forall mm, only_reads [] /\ (forall c m', Done (A:=gate_res * mgr_mem) (GNext NxLost, mm) <> Done (GTail c, m'))) by (intros; split; [constructor|discriminate]).
  destruct (match ev_resp e0 with RBool b => b | _ => false end); cbn [negb] in H.
  2:{ cbn in H. destruct H as [-> ->]. split; [constructor|]. split; [discriminate|]. intros e []. }
  (* lock *)
  eapply (STEP _ _ _ tr0); [| exact H | exact Hmaint0 |].
  { apply NOM; [unfold lock_acquire; cbn [allcalls]; split; [reflexivity|intros r; destruct r; exact I]|].
    unfold lock_acquire; cbn [allcalls]; split; [discriminate|intros r; destruct r; exact I]. }
  intros l t1 R1 HMt1. cbv beta in R1. destruct (negb l).
  { cbn in R1. destruct R1 as [-> ->]. split; [constructor|]. split; [discriminate|]. intros e []. }
  eapply (STEP _ _ _ t1); [| exact R1 | exact HMt1 |].
  { apply NOM; [apply rd_update_hosts|apply um_update_hosts]. }
  intros u t2 R2 HMt2. cbv beta in R2.
  eapply (STEP _ _ _ t2); [| exact R2 | exact HMt2 |].
  { apply NOM; [apply rd_cluster_state|].
    eapply allcalls_impl; [|apply (c_cluster_state (fun c => match c with DcsGet PMaintenance => false | _ => true end)); intros; reflexivity].
    intros s c Hc E. subst c. discriminate Hc. }
  intros cs t3 R3 HMt3. cbv beta in R3.
  eapply (STEP _ _ _ t3); [| exact R3 | exact HMt3 |].
  { apply NOM; [apply rd_cluster_state_dcs|apply um_cluster_state_dcs]. }
  intros ocsd t4 R4 HMt4. cbv beta in R4.
  destruct ocsd as [csd|]; [|cbn in R4; destruct R4 as [-> ->]; split; [constructor|]; split; [discriminate|]; intros e []].
  (* manager_decide: the maintenance record is the first thing it reads *)
  unfold manager_decide in R4. cbn [bind runs] in R4.
  destruct t4 as [|eT t7]; [destruct R4|]. destruct R4 as (_ & EcT & R4).
  destruct (HMt4 eT (or_introl eq_refl) EcT) as (mt & ErT & Hlight & Hpaused). rewrite ErT in R4. cbn [bind] in R4.
  rewrite Hlight, Hpaused in R4. cbn in R4. destruct R4 as [-> ->].
  split; [constructor; [rewrite EcT; reflexivity|constructor]|]. split; [discriminate|].
  intros e [<-|[]] _. eexists. reflexivity.
Qed.
