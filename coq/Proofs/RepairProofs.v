From Coq Require Import ZArith NArith Bool List Lia.
From Mysync Require Import Gtid.Interval Gtid.GtidSet Base.Prog Base.ProgFacts Base.Config Procs.NodeOps Procs.Lost Procs.ActiveNodes Procs.Switchover Procs.DiskGuard Procs.Repair
  Proofs.NodeOpsProofs Proofs.ActiveNodesProofs Proofs.SwitchoverProofs Proofs.DiskGuardProofs.
Import ListNotations.
Open Scope Z_scope.

(* ---------------------------------------------------------------- the resolver (C16) *)
(* a pure reading of findBestStreamFrom: no external call at all *)
Lemma find_best_pure fuel cfg env topo self : forall path,
  (exists r, find_best_stream_from fuel cfg env topo self path = Ret r) \/
  (exists s, find_best_stream_from fuel cfg env topo self path = Panic s).
Proof.
  induction fuel as [|f IH]; intros path; cbn [find_best_stream_from]; [left; eauto|].
  destruct (match assoc _ topo with Some sf => sf | None => None end) as [sf|]; [|left; eauto].
  destruct (mem_host sf path); [left; eauto|].
  match goal with |- context [if ?c then Ret sf else _] => destruct c end; [left; eauto|].
  destruct (assoc sf (re_state env)) as [cand|]; [|left; eauto].
  match goal with |- context [if ?c then Ret sf else _] => destruct c end; [left; eauto|]. apply IH.
Qed.

(* never the replica itself: the replica is in the loop detector from the start *)
Theorem find_best_never_self fuel cfg env topo self : forall path r,
  In self path -> self <> re_master env ->
  find_best_stream_from fuel cfg env topo self path = Ret r -> r <> self.
Proof.
  induction fuel as [|f IH]; intros path r Hin Hm H; cbn [find_best_stream_from] in H.
  - inversion H; subst. auto.
  - destruct (match assoc _ topo with Some sf => sf | None => None end) as [sf|]; [|inversion H; subst; auto].
    destruct (mem_host sf path) eqn:Em; [inversion H; subst; auto|].
    assert (sf <> self).
    { intros ->. apply not_true_iff_false in Em. apply Em. apply mem_host_In. exact Hin. }
    match type of H with context [if ?c then Ret sf else _] => destruct c end; [inversion H; subst; auto|].
    destruct (assoc sf (re_state env)) as [cand|]; [|inversion H; subst; auto].
    match type of H with context [if ?c then Ret sf else _] => destruct c end; [inversion H; subst; auto|].
    apply (IH (sf :: path) r); [right; exact Hin|exact Hm|exact H].
Qed.

(* the configured source wins when it is healthy (or is what the replica streams from) *)
Definition source_healthy (cfg : config) (cand : node_state) : bool :=
  ns_ping_ok cand && negb (ns_offline cand) &&
  (ns_is_master cand || (ns_repl_running cand && match slave_lag_of cand with Some l => l <? c_stream_from_reasonable_lag cfg | None => false end)).

Theorem find_best_configured_healthy fuel cfg env topo self sf cand :
  assoc self topo = Some (Some sf) -> sf <> self -> assoc sf (re_state env) = Some cand -> source_healthy cfg cand = true ->
  find_best_stream_from (S fuel) cfg env topo self [self] = Ret sf.
Proof.
  intros Ht Hne Hs Hh. cbn [find_best_stream_from]. rewrite Ht.
  assert (mem_host sf [self] = false) as ->.
  { apply not_true_iff_false. intros K. apply mem_host_In in K. destruct K as [K|[]]. congruence. }
  match goal with |- (if ?c then Ret sf else _) = _ => destruct c end; [reflexivity|].
  rewrite Hs. unfold source_healthy in Hh. rewrite Hh. reflexivity.
Qed.

Theorem find_best_unconfigured_is_master fuel cfg env topo self :
  (assoc self topo = None \/ assoc self topo = Some None) ->
  find_best_stream_from (S fuel) cfg env topo self [self] = Ret (re_master env).
Proof. intros [H|H]; cbn [find_best_stream_from]; rewrite H; reflexivity. Qed.

(* termination: the walk only ever appends hosts that are not yet on the path and
   that are configured sources; with more fuel than there are topology entries
   the out-of-fuel case is never the one that answers *)
Lemma assoc_In_snd {V} h (v : V) l : assoc h l = Some v -> In v (map snd l).
Proof.
  induction l as [|[k w] r IH]; cbn; [discriminate|]. destruct (N.eqb h k); [intros E; inversion E; left; reflexivity|intros H; right; auto].
Qed.
Lemma removelast_cons {X} (x : X) l : l <> [] -> removelast (x :: l) = x :: removelast l.
Proof. destruct l; [congruence|reflexivity]. Qed.
Lemma In_removelast {X} (x : X) l : In x (removelast l) -> In x l.
Proof.
  induction l as [|a l IHl]; [intros []|]. destruct l as [|b l2]; [intros []|].
  rewrite removelast_cons by discriminate. intros [<-|Hi]; [left; reflexivity|right; apply IHl; exact Hi].
Qed.
Lemma NoDup_removelast {X} (l : list X) : NoDup l -> NoDup (removelast l).
Proof.
  induction l as [|x r IH]; intros H; [constructor|]. destruct r as [|y r2]; [constructor|].
  rewrite removelast_cons by discriminate. inversion H as [|? ? Hn Hr]; subst. constructor; [|apply IH; exact Hr].
  intros Hi. apply Hn. apply In_removelast. exact Hi.
Qed.
Lemma removelast_length {X} (l : list X) : l <> [] -> S (length (removelast l)) = length l.
Proof.
  induction l as [|x r IH]; [congruence|]. intros _. destruct r as [|y r2]; [reflexivity|].
  rewrite removelast_cons by discriminate. cbn [length]. rewrite IH by discriminate. reflexivity.
Qed.

(* termination: the walk only ever appends hosts that are configured sources and not
   yet on the path; with more fuel than topology entries the out-of-fuel case is
   never the one that answers, i.e. the answer no longer depends on the fuel *)
Lemma find_best_fuel_stable cfg env topo self : forall fuel path,
  path <> [] -> NoDup path -> (forall x, In x (removelast path) -> In (Some x) (map snd topo)) ->
  (length topo + 2 <= fuel + length path)%nat ->
  find_best_stream_from fuel cfg env topo self path = find_best_stream_from (S fuel) cfg env topo self path.
Proof.
  induction fuel as [|f IH]; intros path Hne Hnd Hin Hlen.
  - exfalso.
    assert (NoDup (map Some (removelast path))) as Hnd2.
    { apply FinFun.Injective_map_NoDup; [intros a b E; inversion E; reflexivity|apply NoDup_removelast; exact Hnd]. }
    assert (incl (map Some (removelast path)) (map snd topo)) as Hi.
    { intros o Ho. apply in_map_iff in Ho. destruct Ho as (x & <- & Hx). apply Hin. exact Hx. }
    pose proof (NoDup_incl_length Hnd2 Hi) as Hl. rewrite !map_length in Hl.
    pose proof (removelast_length path Hne). lia.
  - cbn [find_best_stream_from].
    destruct (match assoc _ topo with Some sf => sf | None => None end) as [sf|] eqn:Esf; [|reflexivity].
    destruct (mem_host sf path) eqn:Em; [reflexivity|].
    match goal with |- (if ?c then Ret sf else _) = (if ?c then Ret sf else _) => destruct c end; [reflexivity|].
    destruct (assoc sf (re_state env)) as [cand|]; [|reflexivity].
    match goal with |- (if ?c then Ret sf else _) = (if ?c then Ret sf else _) => destruct c end; [reflexivity|].
    apply IH.
    + discriminate.
    + constructor; [|exact Hnd]. intros K. apply not_true_iff_false in Em. apply Em. apply mem_host_In. exact K.
    + intros x Hx. rewrite removelast_cons in Hx by exact Hne. destruct Hx as [<-|Hx]; [|apply Hin; exact Hx].
      destruct (assoc (match path with x :: _ => x | [] => self end) topo) as [o|] eqn:Ea; [|discriminate].
      subst o. eapply assoc_In_snd. exact Ea.
    + cbn [length]. lia.
Qed.

Theorem find_best_terminates cfg env topo self k :
  find_best_stream_from (S (S (length topo))) cfg env topo self [self] =
  find_best_stream_from (k + S (S (length topo))) cfg env topo self [self].
Proof.
  induction k as [|k IH]; [reflexivity|]. rewrite IH. cbn [plus].
  apply find_best_fuel_stable; [discriminate|constructor; [intros []|constructor]|intros x []|cbn; lia].
Qed.

(* ---------------------------------------------------------------- the repair pass (C10) *)
(* what repairing replica h may issue: statements to h only, never SET read_only=0,
   re-pointing never at itself; coordination writes: only the recovery protocol
   (list without the host, recovery marks) - never the recorded master *)
Definition rs_ok (h : host) (c : call) : Prop :=
  match c with
  | Sql x (SChangeSource src) => x = h /\ src <> h
  | Sql _ SSetWritable => False
  | Sql x _ => x = h
  | DcsSet PActiveNodes _ | DcsCreate PRecoveryDir _ | DcsCreate (PRecovery _) _ => True
  | DcsSet _ _ | DcsCreate _ _ | DcsDelete _ | DcsSetEph _ _ => False
  | DcsGet _ | DcsChildren _ | Now | Sleep _ | Peek _ | FileWrite _ => True
  | _ => False
  end.

Ltac rleaf := first [exact I | reflexivity | (split; [reflexivity|assumption]) | (intros; exact I)].
Ltac rac := repeat first
  [ exact I
  | match goal with
    | |- allcalls _ (bind _ _) => apply allcalls_bind; [|intros ?]
    | |- allcalls _ (exec_ _ _ _) => apply ac_exec; rleaf
    | |- allcalls _ (replica_status _ _) => apply ac_replica_status; rleaf
    | |- allcalls _ (match ?x with _ => _ end) => destruct x
    | |- allcalls _ (if ?x then _ else _) => destruct x
    | |- allcalls _ (let '(_, _) := ?x in _) => destruct x
    | |- allcalls _ (Do _ _ _) => cbn [allcalls]; split; [rleaf|intros ?]
    | |- allcalls _ (Ret _) => exact I
    | |- allcalls _ (Panic _) => exact I
    end ].

Lemma r_set_ro h : allcalls (fun _ c => rs_ok h c) (set_read_only h true).
Proof. apply ac_set_read_only_once; reflexivity. Qed.

Lemma r_wait_repl fuel h dl : allcalls (fun _ c => rs_ok h c) (wait_repl_start fuel h dl).
Proof.
  revert dl. induction fuel as [|f IH]; intros dl; cbn [wait_repl_start]; [exact I|].
  apply allcalls_bind; [unfold now_; split; [exact I|intros; exact I]|]. intros t. destruct (_ <? dl); [|exact I].
  apply allcalls_bind; [apply ac_replica_status; reflexivity|]. intros [st e]. cbn [fst snd].
  destruct e; [apply IH|]. destruct st as [rs|]; [|split; [exact I|]; intros _; apply IH]. destruct (rs_io rs && rs_sql rs); [exact I|].
  split; [exact I|]. intros _. apply IH.
Qed.

(* performChangeMaster never points a server at itself (it panics instead) *)
Lemma r_pcm cfg h m : allcalls (fun _ c => rs_ok h c) (perform_change_master cfg h m).
Proof.
  unfold perform_change_master. destruct (N.eqb_spec h m) as [|Hne]; [exact I|].
  apply allcalls_bind; [apply ac_exec; reflexivity|]. intros [e|]; [exact I|].
  apply allcalls_bind; [apply ac_exec; cbn; split; [reflexivity|congruence]|]. intros [e|]; [exact I|].
  apply allcalls_bind; [apply ac_exec; reflexivity|]. intros [e|]; [exact I|].
  apply allcalls_bind; [unfold now_; split; [exact I|intros; exact I]|]. intros t.
  apply allcalls_bind; [apply r_wait_repl|]. intros; exact I.
Qed.

Lemma r_set_recovery h : allcalls (fun _ c => rs_ok h c) (set_recovery h).
Proof. unfold set_recovery, get_active_nodes, set_active_nodes, dcs_create_tolerant. rac. Qed.

Lemma r_fetch_topo h : allcalls (fun _ c => rs_ok h c) fetch_cascade_topology.
Proof.
  unfold fetch_cascade_topology, dcs_children_. cbn [bind allcalls]. split; [exact I|]. intros r.
  assert (G : forall l, allcalls (fun _ c => rs_ok h c)
    ((fix go (l : list host) : prog (option (list (host * option host))) :=
       match l with
       | [] => Ret (Some [])
       | h0 :: r0 => Do 30082 (DcsGet (PCascadeNode h0)) (fun x =>
           match x with
           | RVal (VStreamFrom sf) => y <- go r0 ;; Ret (match y with Some t => Some ((h0, sf) :: t) | None => None end)
           | _ => Ret None
           end)
       end) l)).
  { induction l as [|h0 r0 IH]; [exact I|]. cbn [allcalls]. split; [exact I|]. intros x.
    destruct x; try exact I. destruct v; try exact I. apply allcalls_bind; [exact IH|]. intros; exact I. }
  destruct r; cbn [bind fst snd]; try exact I; try apply G.
Qed.

Lemma r_cooldown cfg h st : allcalls (fun _ c => rs_ok h c) (cooldown_passed cfg st).
Proof. unfold cooldown_passed, now_. rac. Qed.

Lemma r_reset_alg h m : h <> m -> allcalls (fun _ c => rs_ok h c) (reset_slave_algorithm h m).
Proof.
  intros Hne. unfold reset_slave_algorithm.
  apply allcalls_bind; [apply ac_exec; reflexivity|]. intros [e|]; [exact I|].
  apply allcalls_bind; [apply r_set_ro|]. intros [e|]; [exact I|].
  apply allcalls_bind; [apply ac_exec; reflexivity|]. intros [e|]; [exact I|].
  apply allcalls_bind; [apply ac_exec; reflexivity|]. intros [e|]; [exact I|].
  apply allcalls_bind; [apply ac_exec; cbn; split; [reflexivity|congruence]|]. intros [e|]; [exact I|].
  apply ac_exec; reflexivity.
Qed.

Lemma r_try_repair cfg h m mem : h <> m -> allcalls (fun _ c => rs_ok h c) (try_repair_replication cfg h m mem).
Proof.
  intros Hne. unfold try_repair_replication.
  apply allcalls_bind.
  { destruct (assoc h (rm_repair mem)); [exact I|].
    apply allcalls_bind; [apply ac_replica_status; reflexivity|]. intros [st e]. cbn [fst snd].
    destruct e; [exact I|]. destruct st; [|exact I]. unfold now_. rac. }
  intros [st|]; [|exact I].
  apply allcalls_bind; [apply r_cooldown|]. intros cp. destruct (negb cp); [exact I|].
  destruct (suitable_algo cfg st) as [[alg count]|]; [|exact I].
  apply allcalls_bind; [destruct alg; [apply ac_exec; reflexivity|apply r_reset_alg; exact Hne]|]. intros _.
  unfold now_. rac.
Qed.

Lemma r_mark_running cfg h mem : allcalls (fun _ c => rs_ok h c) (mark_replication_running cfg h mem).
Proof.
  unfold mark_replication_running. destruct (assoc h (rm_repair mem)) as [st|]; [|exact I].
  apply allcalls_bind; [apply r_cooldown|]. intros cp. destruct (negb cp); [exact I|].
  apply allcalls_bind; [apply ac_replica_status; reflexivity|]. intros [st' e]. cbn [fst snd].
  destruct e; [exact I|]. destruct st'; [|exact I]. destruct (slave_ahead _ _); exact I.
Qed.

Lemma r_find_best fuel cfg env topo self path : allcalls (fun _ c => rs_ok self c) (find_best_stream_from fuel cfg env topo self path).
Proof. destruct (find_best_pure fuel cfg env topo self path) as [[r ->]|[s ->]]; exact I. Qed.

Lemma r_cascade cfg env topo h ns la : allcalls (fun _ c => rs_ok h c) (repair_cascade_node cfg env topo h ns la).
Proof.
  unfold repair_cascade_node. destruct (ns_slave ns) as [rs|].
  - apply allcalls_bind; [apply r_find_best|]. intros cand.
    destruct (ns_repl_running ns && N.eqb cand (rs_source rs)); [exact I|].
    destruct (negb (ns_repl_running ns) && N.eqb cand (rs_source rs)).
    { destruct (perm_broken ns); [exact I|]. apply allcalls_bind; [apply ac_exec; reflexivity|]. intros; exact I. }
    apply allcalls_bind.
    { destruct (negb (ns_repl_running ns) && _); [|exact I]. unfold now_. rac. }
    intros la'. apply allcalls_bind.
    { destruct (ns_repl_running ns); [|exact I]. apply allcalls_bind; [apply ac_exec; reflexivity|]. intros; exact I. }
    intros stopped. destruct (negb stopped); [exact I|].
    apply allcalls_bind; [apply ac_replica_status; reflexivity|]. intros [my e]. cbn [fst snd].
    destruct e; [exact I|]. destruct my as [myrs|]; [|exact I].
    destruct (assoc cand (re_state env)) as [cst|]; [|exact I]. destruct (node_gtid cst) as [cg|]; [|exact I].
    destruct (slave_ahead _ _); [exact I|]. destruct (split_brained _ _ _); [split; [exact I|intros; exact I]|].
    destruct (behind_or_equal _ _); [|exact I].
    apply allcalls_bind; [apply r_pcm|]. intros [e|]; [exact I|]. apply allcalls_bind; [apply ac_exec; reflexivity|]. intros; exact I.
  - apply allcalls_bind; [apply r_find_best|]. intros src.
    apply allcalls_bind; [apply r_pcm|]. intros [e|]; try exact I.
    apply allcalls_bind; [apply ac_exec; reflexivity|]. intros; exact I.
Qed.

(* ---- the deliberate panic of performChangeMaster(host, host) is unreachable from the cascade repair
   (after the repair bee82ca the blind path resolves its source too): every source it re-points to comes
   from the resolver, which never returns the replica itself *)
Definition not_self_repoint (s : site) : Prop := s <> 2079.
Lemma np_wait_repl_start f h d : nopanic (wait_repl_start f h d).
Proof.
  induction f as [|f IH]; cbn [wait_repl_start]; [exact I|].
  apply nopanic_bind; [unfold now_; cbn [nopanic]; intros r; destruct r; exact I|]. intros t. destruct (t <? d); [|exact I].
  apply nopanic_bind; [unfold replica_status; cbn [nopanic]; intros r; destruct r; exact I|]. intros [st e]. cbn [fst snd].
  destruct e; [exact IH|]. destruct st as [rs|]; [|cbn [nopanic]; intros _; exact IH].
  destruct (rs_io rs && rs_sql rs); [exact I|]. cbn [nopanic]. intros _. exact IH.
Qed.
Lemma pi_wait_repl_start f h d : panics_in not_self_repoint (wait_repl_start f h d).
Proof. apply nopanic_panics_in. apply np_wait_repl_start. Qed.
Lemma pi_exec Q s h st : panics_in Q (exec_ s h st).
Proof. unfold exec_. cbn [panics_in]. intros r. destruct r; exact I. Qed.
Lemma pi_change_master cfg h m : h <> m -> panics_in not_self_repoint (perform_change_master cfg h m).
Proof.
  intros Hne. unfold perform_change_master. destruct (N.eqb_spec h m) as [->|_]; [contradiction|].
  apply panics_in_bind; [apply pi_exec|]. intros [x1|]; [exact I|].
  apply panics_in_bind; [apply pi_exec|]. intros [x2|]; [exact I|].
  apply panics_in_bind; [apply pi_exec|]. intros [x3|]; [exact I|].
  apply panics_in_bind; [unfold now_; cbn [panics_in]; intros r; destruct r; exact I|]. intros t.
  apply panics_in_bind; [apply pi_wait_repl_start|intros; exact I].
Qed.
Theorem cascade_repair_never_repoints_to_itself cfg env topo h ns la : h <> re_master env ->
  panics_in not_self_repoint (repair_cascade_node cfg env topo h ns la).
Proof.
  intros Hm. unfold repair_cascade_node.
  assert (FB : forall (B : Type) (k : host -> prog B), (forall c, c <> h -> panics_in not_self_repoint (k c)) ->
             panics_in not_self_repoint (c <- find_best_stream_from (S (S (length topo))) cfg env topo h [h] ;; k c)).
  { intros B k Hk. destruct (find_best_pure (S (S (length topo))) cfg env topo h [h]) as [[r E]|[s E]].
    - rewrite E. cbn [bind]. apply Hk. apply (find_best_never_self (S (S (length topo))) cfg env topo h [h] r); [left; reflexivity|exact Hm|exact E].
    - exfalso. revert E. generalize (S (S (length topo))) as fuel. generalize [h] as path. intros path fuel. revert path.
      induction fuel as [|f IH]; intros path; cbn [find_best_stream_from]; [discriminate|].
      destruct (match assoc _ topo with Some sf => sf | None => None end) as [sf|]; [|discriminate].
      destruct (mem_host sf path); [discriminate|].
      match goal with |- context [if ?c then Ret sf else _] => destruct c end; [discriminate|].
      destruct (assoc sf (re_state env)) as [cand|]; [|discriminate].
      match goal with |- context [if ?c then Ret sf else _] => destruct c end; [discriminate|]. apply IH. }
  destruct (ns_slave ns) as [rs|].
  - apply FB. intros cand Hc.
    destruct (ns_repl_running ns && N.eqb cand (rs_source rs)); [exact I|].
    destruct (negb (ns_repl_running ns) && N.eqb cand (rs_source rs)).
    { destruct (perm_broken ns); [exact I|]. apply panics_in_bind; [apply pi_exec|intros; exact I]. }
    apply panics_in_bind.
    { destruct (negb (ns_repl_running ns) && _); [|exact I]. unfold now_. cbn [bind panics_in]. intros r; destruct r; exact I. }
    intros la'. apply panics_in_bind.
    { destruct (ns_repl_running ns); [|exact I]. apply panics_in_bind; [apply pi_exec|intros; exact I]. }
    intros stopped. destruct (negb stopped); [exact I|].
    apply panics_in_bind; [unfold replica_status; cbn [panics_in]; intros r; destruct r; exact I|]. intros [my e]. cbn [fst snd].
    destruct e; [exact I|]. destruct my as [myrs|]; [|exact I].
    destruct (assoc cand (re_state env)) as [cst|]; [|cbn [panics_in]; unfold not_self_repoint; discriminate].
    destruct (node_gtid cst) as [cg|]; [|exact I].
    destruct (slave_ahead _ _); [exact I|]. destruct (split_brained _ _ _); [cbn [panics_in]; intros; exact I|].
    destruct (behind_or_equal _ _); [|exact I].
    apply panics_in_bind; [apply pi_change_master; auto|]. intros [e|]; [exact I|]. apply panics_in_bind; [apply pi_exec|intros; exact I].
  - apply FB. intros src Hs.
    apply panics_in_bind; [apply pi_change_master; auto|]. intros [e|]; [exact I|]. apply panics_in_bind; [apply pi_exec|intros; exact I].
Qed.

Theorem cascade_repair_no_self_repoint_panic cfg env topo h ns la tr s :
  h <> re_master env -> runs (repair_cascade_node cfg env topo h ns la) tr (Panicked s) -> s <> 2079.
Proof.
  intros Hm R.
  exact (panics_in_sound not_self_repoint _ (cascade_repair_never_repoints_to_itself cfg env topo h ns la Hm) tr s R).
Qed.

Theorem repair_slave_calls cfg env h ns mem : h <> re_master env ->
  allcalls (fun _ c => rs_ok h c) (repair_slave_node cfg env h ns mem).
Proof.
  intros Hne. unfold repair_slave_node.
  apply allcalls_bind.
  { destruct (negb (ns_ro ns)); [|exact I]. apply allcalls_bind; [apply r_set_ro|]. intros; exact I. }
  intros _. destruct (ns_is_master ns).
  - apply allcalls_bind.
    { unfold stop_replication_on_master. apply allcalls_bind; [apply ac_exec; reflexivity|]. intros [e|]; [exact I|]. apply ac_exec; reflexivity. }
    intros _. apply allcalls_bind; [apply r_pcm|]. intros _. apply allcalls_bind; [apply r_set_recovery|]. intros; exact I.
  - apply allcalls_bind.
    { destruct (ns_is_cascade ns); [|exact I]. apply allcalls_bind; [apply r_fetch_topo|]. intros [tp|]; [|exact I].
      apply allcalls_bind; [apply r_cascade|]. intros; exact I. }
    intros [mem1|]; [|exact I].
    apply allcalls_bind.
    { destruct (negb (ns_is_cascade ns)); [|exact I]. destruct (ns_slave ns) as [rs|]; [|exact I].
      destruct (negb (N.eqb (rs_source rs) (re_master env))).
      - apply allcalls_bind; [apply r_pcm|]. intros; exact I.
      - destruct (repl_state_of rs); try exact I. apply allcalls_bind; [apply ac_exec; reflexivity|]. intros; exact I. }
    intros _. destruct (ns_slave ns) as [rs|]; [|exact I].
    destruct (repl_state_of rs); try apply r_mark_running.
    destruct (perm_broken ns); [exact I|]. apply r_try_repair. exact Hne.
Qed.

(* RESET REPLICA ALL on a replica is only ever issued by the reset algorithm, which
   runs only when: aggressive repair, start attempts exhausted, reset attempts below
   the limit (the cooldown test is the Now-dependent branch just before) *)
Theorem suitable_algo_reset_guard cfg st count :
  suitable_algo cfg st = Some (AlgReset, count) ->
  c_repair_aggressive cfg = true /\ c_repair_max_attempts cfg <= rp_start_count st /\
  rp_reset_count st < c_repair_max_attempts cfg /\ count = rp_reset_count st.
Proof.
  unfold suitable_algo. destruct (Z.ltb_spec (rp_start_count st) (c_repair_max_attempts cfg)); [discriminate|].
  destruct (c_repair_aggressive cfg); cbn [andb]; [|discriminate].
  destruct (Z.ltb_spec (rp_reset_count st) (c_repair_max_attempts cfg)); [|discriminate].
  intros E; inversion E; subst. auto.
Qed.

Definition no_reset (c : call) : Prop := match c with Sql _ SResetReplAll => False | _ => True end.
Theorem try_repair_no_reset_unless_allowed cfg h m mem st :
  assoc h (rm_repair mem) = Some st ->
  (forall count, suitable_algo cfg st <> Some (AlgReset, count)) ->
  allcalls (fun _ c => no_reset c) (try_repair_replication cfg h m mem).
Proof.
  intros Ha Hs. unfold try_repair_replication. rewrite Ha. cbn [bind].
  apply allcalls_bind; [unfold cooldown_passed, now_; split; [exact I|intros; exact I]|]. intros cp.
  destruct (negb cp); [exact I|]. destruct (suitable_algo cfg st) as [[alg count]|] eqn:E; [|exact I].
  destruct alg; [|exfalso; eapply Hs; reflexivity].
  apply allcalls_bind; [apply ac_exec; exact I|]. intros _. unfold now_. split; [exact I|intros; exact I].
Qed.
