(* allcalls / nopanic facts about the node-method programs of Procs/NodeOps.v *)
From Coq Require Import ZArith NArith Bool List Lia.
From Mysync Require Import Gtid.Interval Gtid.GtidSet Base.Prog Base.ProgFacts Base.Config Procs.NodeOps.
Import ListNotations.
Open Scope Z_scope.

Ltac leaf := repeat match goal with
  | |- allcalls _ (Ret _) => exact I
  | |- allcalls _ (match ?x with _ => _ end) => destruct x
  | |- nopanic (Ret _) => exact I
  | |- nopanic (match ?x with _ => _ end) => destruct x
  end.

Section AC.
Variable P : site -> call -> Prop.

Lemma ac_exec s h st : P s (Sql h st) -> allcalls P (exec_ s h st).
Proof. intros H. split; [exact H|]. intros r. leaf. Qed.
Lemma ac_ping s h : P s (Sql h SPing) -> allcalls P (ping s h).
Proof. intros H. split; [exact H|]. intros r. leaf. Qed.
Lemma ac_is_read_only s h : P s (Sql h SIsReadOnly) -> allcalls P (is_read_only s h).
Proof. intros H. split; [exact H|]. intros r. leaf. Qed.
Lemma ac_is_offline s h : P s (Sql h SIsOffline) -> allcalls P (is_offline s h).
Proof. intros H. split; [exact H|]. intros r. leaf. Qed.
Lemma ac_replica_status s h : P s (Sql h SShowReplica) -> allcalls P (replica_status s h).
Proof. intros H. split; [exact H|]. intros r. leaf. Qed.
Lemma ac_gtid_executed s h : P s (Sql h SGtidExecuted) -> allcalls P (gtid_executed s h).
Proof. intros H. split; [exact H|]. intros r. leaf. Qed.
Lemma ac_semi_sync_status s h : P s (Sql h SSemiStatus) -> allcalls P (semi_sync_status s h).
Proof. intros H. split; [exact H|]. intros r. leaf. Qed.
Lemma ac_repl_settings s h : P s (Sql h SReplSettings) -> allcalls P (repl_settings s h).
Proof. intros H. split; [exact H|]. intros r. leaf. Qed.
Lemma ac_is_waiting_ack s h : P s (Sql h SWaitingAck) -> allcalls P (is_waiting_ack s h).
Proof. intros H. split; [exact H|]. intros r. leaf. Qed.

Lemma ac_set_read_only_once h super :
  P 10767 (Sql h (SSetRO super)) -> P 10773 (Sql h SIsReadOnly) -> allcalls P (set_read_only_once h super).
Proof.
  intros H1 H2. unfold set_read_only_once. apply allcalls_bind; [apply ac_exec; exact H1|].
  intros [e|]; [exact I|]. apply allcalls_bind; [apply ac_is_read_only; exact H2|].
  intros [[ro sro] [e|]]; [exact I|]. destruct (negb (Bool.eqb sro super)); [exact I|]. destruct (negb ro); exact I.
Qed.

Lemma ac_kill_loop fuel h :
  (forall c, P 10810 (Peek c)) -> P 10811 (Sql h SProcessIds) -> (forall id, P 10814 (Sql h (SKill id))) ->
  allcalls P (kill_loop fuel h).
Proof.
  intros H0 H1 H2. induction fuel as [|f IH]; cbn [kill_loop]; [exact I|].
  split; [apply H0|]. intros more. destruct more; try exact I. destruct b; [|exact I].
  split; [exact H1|]. intros r. destruct r; try exact IH.
  apply allcalls_bind; [|intros _; exact IH].
  apply allcalls_forM_. intros id _. apply allcalls_bind; [apply ac_exec; apply H2|]. intros _. exact I.
Qed.

Lemma ac_set_read_only_with_force fuel h super :
  P 10767 (Sql h (SSetRO super)) -> P 10773 (Sql h SIsReadOnly) ->
  (forall c, P 10810 (Peek c)) -> P 10811 (Sql h SProcessIds) -> (forall id, P 10814 (Sql h (SKill id))) ->
  allcalls P (set_read_only_with_force fuel h super).
Proof.
  intros H1 H2 H3 H4 H5. unfold set_read_only_with_force.
  apply allcalls_bind; [apply ac_set_read_only_once; assumption|]. intros [e1|]; [|exact I].
  apply allcalls_bind; [apply ac_set_read_only_once; assumption|]. intros [e2|]; [|exact I].
  apply allcalls_bind; [apply ac_set_read_only_once; assumption|]. intros [e3|]; [|exact I].
  cbn [allcalls]. split.
  - split.
    + apply allcalls_bind; [apply ac_set_read_only_once; assumption|]. intros [e|]; exact I.
    + split; [apply ac_kill_loop; assumption|exact I].
  - intros rs. match goal with |- allcalls _ (match ?x with _ => _ end) => destruct x as [[h0 r]|] end; exact I.
Qed.

Lemma ac_gns_fail h ns : P 2191 (Sql h SPing) -> allcalls P (gns_fail h ns).
Proof.
  intros H. unfold gns_fail. destruct (ns_ping_ok ns); [|exact I].
  apply allcalls_bind; [apply ac_ping; exact H|]. intros [ok e]. exact I.
Qed.

Definition gns_calls_ok (h : host) : Prop :=
  P 2131 Now /\ P 2133 (Sql h SPing) /\ P 2191 (Sql h SPing) /\ P 2142 (Sql h SIsReadOnly) /\ P 2146 (Sql h SIsOffline) /\
  P 2150 (Sql h SShowReplica) /\ P 2154 (Sql h SReplSettings) /\ P 2173 (Sql h SGtidExecuted) /\ P 2180 (Sql h SSemiStatus).

Lemma ac_get_node_state h casc : gns_calls_ok h -> allcalls P (get_node_state h casc).
Proof.
  intros (H0 & H1 & H2 & H3 & H4 & H5 & H6 & H7 & H8). unfold get_node_state.
  split; [exact H0|]. intros tnow.
  apply allcalls_bind; [apply ac_ping; exact H1|]. intros [ok e].
  destruct e; [apply ac_gns_fail; exact H2|]. destruct (negb ok); [apply ac_gns_fail; exact H2|].
  apply allcalls_bind; [apply ac_is_read_only; exact H3|]. intros [[ro sro] e2].
  destruct e2; [apply ac_gns_fail; exact H2|].
  apply allcalls_bind; [apply ac_is_offline; exact H4|]. intros [off e3].
  destruct e3; [apply ac_gns_fail; exact H2|].
  apply allcalls_bind; [apply ac_replica_status; exact H5|]. intros [st e4].
  destruct e4; [apply ac_gns_fail; exact H2|].
  apply allcalls_bind; [apply ac_repl_settings; exact H6|]. intros [rset e5].
  destruct e5; [apply ac_gns_fail; exact H2|].
  destruct st as [rstat|].
  - apply allcalls_bind; [apply ac_semi_sync_status; exact H8|]. intros [semi e7].
    destruct e7; [apply ac_gns_fail; exact H2|exact I].
  - apply allcalls_bind; [apply ac_gtid_executed; exact H7|]. intros [gs e6].
    destruct e6; [apply ac_gns_fail; exact H2|].
    apply allcalls_bind; [apply ac_semi_sync_status; exact H8|]. intros [semi e7].
    destruct e7; [apply ac_gns_fail; exact H2|exact I].
Qed.
End AC.
