From Coq Require Import ZArith NArith Bool List Lia.
From Mysync Require Import Gtid.Interval Gtid.GtidSet Proofs.IntervalProofs Proofs.GtidProofs Pure.Desirable.
Import ListNotations.
Open Scope Z_scope.

Lemma prio_step_pick mx p : prio_step mx p = mx \/ prio_step mx p = p.
Proof.
  unfold prio_step. destruct (_ <? _); [auto|]. destruct (_ =? _); [|auto].
  destruct (set_equal _ _); [destruct (_ <? _)|destruct (set_contain _ _)]; auto.
Qed.

Lemma fold_prio_in l : forall mx, In (fold_left prio_step l mx) (mx :: l).
Proof.
  induction l as [|p l IH]; intros mx; cbn [fold_left]; [left; reflexivity|].
  destruct (IH (prio_step mx p)) as [E|Hi].
  - rewrite <- E. destruct (prio_step_pick mx p) as [K|K]; rewrite K; [left; reflexivity|right; left; reflexivity].
  - right; right; exact Hi.
Qed.

Lemma most_priority_in ps top : most_priority ps = Some top -> In top ps.
Proof. destruct ps as [|p0 r]; cbn; [discriminate|]. intros E; inversion E. apply fold_prio_in. Qed.
Lemma most_priority_none ps : most_priority ps = None <-> ps = [].
Proof. destruct ps; cbn; split; congruence. Qed.

(* ---- termination and membership --------------------------------------- *)
Lemma filter_len_le {A} (f : A -> bool) l : (length (filter f l) <= length l)%nat.
Proof. induction l as [|y l IH]; cbn; [lia|]. destruct (f y); cbn; lia. Qed.
Lemma filter_length_lt {A} (f : A -> bool) l x : In x l -> f x = false -> (length (filter f l) < length l)%nat.
Proof.
  induction l as [|y l IH]; cbn; [intros []|]. intros [->|Hi] Hf.
  - rewrite Hf. pose proof (filter_len_le f l). lia.
  - destruct (f y); cbn; specialize (IH Hi Hf); lia.
Qed.

Theorem most_desirable_terminates : forall fuel ps bound, 0 <= bound -> (length ps < fuel)%nat ->
  most_desirable fuel ps bound <> DesFuel.
Proof.
  induction fuel as [|f IH]; intros ps bound Hb Hl; [lia|]. cbn [most_desirable].
  destruct (most_priority ps) as [top|] eqn:Et; [|discriminate].
  destruct (p_lag top <=? bound); [discriminate|].
  set (more := filter _ ps).
  destruct more as [|m0 more'] eqn:Em; [discriminate|]. rewrite <- Em. apply IH; [exact Hb|].
  assert (length more < length ps)%nat; [|lia].
  apply (filter_length_lt _ ps top); [apply most_priority_in; exact Et|]. apply Z.ltb_ge. lia.
Qed.

Theorem most_desirable_member : forall fuel ps bound h,
  most_desirable fuel ps bound = DesFound h -> exists p, In p ps /\ p_host p = h.
Proof.
  induction fuel as [|f IH]; intros ps bound h H; [discriminate|]. cbn [most_desirable] in H.
  destruct (most_priority ps) as [top|] eqn:Et; [|discriminate].
  pose proof (most_priority_in _ _ Et) as Hin.
  destruct (p_lag top <=? bound); [inversion H; eauto|].
  set (more := filter _ ps) in *.
  destruct more as [|m0 more'] eqn:Em; [inversion H; eauto|]. rewrite <- Em in H.
  destruct (IH _ _ _ H) as (p & Hp & Hh). exists p. split; [|exact Hh].
  unfold more in Hp. apply filter_In in Hp. tauto.
Qed.

Theorem most_desirable_notfound_iff : forall fuel ps bound, 0 <= bound -> (length ps < fuel)%nat ->
  (most_desirable fuel ps bound = DesNotFound <-> ps = []).
Proof.
  induction fuel as [|f IH]; intros ps bound Hb Hl; [lia|]. cbn [most_desirable].
  destruct (most_priority ps) as [top|] eqn:Et.
  - assert (ps <> []) as Hne by (intros ->; discriminate).
    split; [|tauto]. intros H. exfalso.
    destruct (p_lag top <=? bound); [discriminate|].
    set (more := filter _ ps) in *.
    destruct more as [|m0 more'] eqn:Em; [discriminate|]. rewrite <- Em in H.
    assert (length more < length ps)%nat as Hlt.
    { apply (filter_length_lt _ ps top); [apply most_priority_in; exact Et|]. apply Z.ltb_ge. lia. }
    apply IH in H; [|exact Hb|lia]. rewrite Em in H. discriminate.
  - apply most_priority_none in Et. tauto.
Qed.

(* never the host the switch moves away from *)
Theorem most_desirable_never_from : forall fuel ps bound from h,
  most_desirable fuel (filter_out_host ps from) bound = DesFound h -> h <> from.
Proof.
  intros fuel ps bound from h H. destruct (most_desirable_member _ _ _ _ H) as (p & Hp & <-).
  unfold filter_out_host in Hp. apply filter_In in Hp. destruct Hp as [_ Hp].
  apply negb_true_iff, N.eqb_neq in Hp. exact Hp.
Qed.

(* ---- the priority / lag contract --------------------------------------- *)
Theorem most_desirable_top_within_bound : forall fuel ps bound top,
  most_priority ps = Some top -> p_lag top <= bound -> most_desirable (S fuel) ps bound = DesFound (p_host top).
Proof.
  intros fuel ps bound top Et Hl. cbn [most_desirable]. rewrite Et.
  destruct (Z.leb_spec (p_lag top) bound); [reflexivity|lia].
Qed.

Theorem most_desirable_top_or_much_fresher : forall fuel ps bound top h, 0 <= bound ->
  most_priority ps = Some top -> most_desirable fuel ps bound = DesFound h ->
  h = p_host top \/ exists p, In p ps /\ p_host p = h /\ p_lag p < p_lag top - bound.
Proof.
  intros fuel ps bound top h Hb Et H. destruct fuel as [|f]; [discriminate|]. cbn [most_desirable] in H. rewrite Et in H.
  destruct (p_lag top <=? bound); [inversion H; auto|].
  set (more := filter _ ps) in *.
  destruct more as [|m0 more'] eqn:Em; [inversion H; auto|]. rewrite <- Em in H.
  right. destruct (most_desirable_member _ _ _ _ H) as (p & Hp & Hh). exists p.
  unfold more in Hp. apply filter_In in Hp. destruct Hp as [Hp Hl]. apply Z.ltb_lt in Hl. auto.
Qed.

(* ---- tie-breaking inside the top priority ------------------------------- *)
Definition strictly_more (a b : gtidset) : Prop := subset b a /\ ~ subset a b.

Definition prio_inv (mx : position) (seen : list position) : Prop :=
  forall p, In p seen -> p_prio p <= p_prio mx /\ (p_prio p = p_prio mx -> ~ strictly_more (p_set p) (p_set mx)).

Lemma prio_step_inv mx seen q : wf (p_set mx) -> wf (p_set q) -> (forall p, In p seen -> wf (p_set p)) ->
  prio_inv mx (mx :: seen) -> prio_inv (prio_step mx q) (q :: mx :: seen).
Proof.
  intros Wm Wq Ws Hinv. unfold prio_step.
  destruct (Z.ltb_spec (p_prio mx) (p_prio q)) as [Hlt|Hge].
  - intros p [<-|Hp].
    + split; [lia|]. intros _ [_ H]. apply H. intros u t g K; exact K.
    + destruct (Hinv p Hp) as [H1 _]. split; [lia|]. intros E. lia.
  - destruct (Z.eqb_spec (p_prio mx) (p_prio q)) as [Heq|Hne].
    + destruct (set_equal (p_set q) (p_set mx)) eqn:Eq.
      * apply set_equal_sound in Eq; auto.
        assert (Hsame : forall x, x = q \/ x = mx -> same (p_set x) (p_set mx)).
        { intros x [->| ->]; [exact Eq|apply same_refl]. }
        assert (Hgoal : forall x, (x = q \/ x = mx) -> prio_inv x (q :: mx :: seen)).
        { intros x Hx p Hp. assert (p_prio x = p_prio mx) as Epx by (destruct Hx as [->| ->]; lia).
          assert (same (p_set x) (p_set mx)) as Sx by (apply Hsame; exact Hx).
          destruct Hp as [<-|Hp].
          - split; [lia|]. intros _ [H1 H2]. apply H2. intros u t g K. rewrite (Sx u t g). rewrite <- (Eq u t g). exact K.
          - destruct (Hinv p Hp) as [H1 H2]. split; [lia|]. intros E [K1 K2]. apply H2; [lia|]. split.
            + intros u t g K. apply K1. rewrite (Sx u t g). exact K.
            + intros K. apply K2. intros u t g K'. rewrite (Sx u t g). apply K. exact K'. }
        destruct (_ <? _); apply Hgoal; auto.
      * destruct (set_contain (p_set q) (p_set mx)) eqn:Ec.
        -- apply set_contain_spec in Ec; auto.
           intros p [<-|Hp].
           ++ split; [lia|]. intros _ [_ H]. apply H. intros u t g K; exact K.
           ++ destruct (Hinv p Hp) as [H1 H2]. split; [lia|]. intros E [K1 K2]. apply H2; [lia|]. split.
              ** intros u t g K. apply K1. apply Ec. exact K.
              ** intros K. apply K2. intros u t g K'. apply Ec. apply K. exact K'.
        -- intros p [<-|Hp].
           ++ split; [lia|]. intros _ [K1 _]. apply not_true_iff_false in Ec. apply Ec. apply set_contain_spec; auto.
           ++ apply Hinv. exact Hp.
    + intros p [<-|Hp]; [split; [lia|intros E; lia]|apply Hinv; exact Hp].
Qed.

Lemma fold_prio_inv l : forall mx seen, wf (p_set mx) -> (forall p, In p seen -> wf (p_set p)) -> (forall p, In p l -> wf (p_set p)) ->
  prio_inv mx (mx :: seen) ->
  prio_inv (fold_left prio_step l mx) (rev l ++ mx :: seen).
Proof.
  induction l as [|q l IH]; intros mx seen Wm Ws Wl Hinv; cbn [fold_left rev app]; [exact Hinv|].
  assert (Wq : wf (p_set q)) by (apply Wl; left; reflexivity).
  pose proof (prio_step_inv mx seen q Wm Wq Ws Hinv) as Hstep.
  set (mx' := prio_step mx q) in *.
  assert (Wm' : wf (p_set mx')) by (unfold mx'; destruct (prio_step_pick mx q) as [->| ->]; assumption).
  (* re-shape: mx' is in (q :: mx :: seen) *)
  assert (Hinv' : prio_inv mx' (mx' :: q :: mx :: seen)).
  { intros p [<-|Hp]; [split; [lia|intros _ [_ H]; apply H; intros u t g K; exact K]|apply Hstep; exact Hp]. }
  specialize (IH mx' (q :: mx :: seen) Wm').
  assert (prio_inv (fold_left prio_step l mx') (rev l ++ mx' :: q :: mx :: seen)) as R.
  { apply IH; auto.
    - intros p [<-|[<-|Hp]]; auto.
    - intros p Hp. apply Wl. right. exact Hp. }
  intros p Hp. apply R. rewrite <- app_assoc in Hp. cbn in Hp.
  apply in_app_or in Hp. apply in_or_app. destruct Hp as [Hp|Hp]; [left; exact Hp|right; right; exact Hp].
Qed.

Theorem most_priority_spec ps top : all_wf ps -> most_priority ps = Some top ->
  In top ps /\
  forall p, In p ps -> p_prio p <= p_prio top /\ (p_prio p = p_prio top -> ~ strictly_more (p_set p) (p_set top)).
Proof.
  intros Hwf Et. split; [apply most_priority_in; exact Et|].
  destruct ps as [|p0 r]; [discriminate|]. cbn in Et. inversion Et; subst top. clear Et.
  assert (prio_inv (fold_left prio_step r p0) (rev r ++ p0 :: [])) as R.
  { apply fold_prio_inv; [apply Hwf; left; reflexivity|intros p []|intros p Hp; apply Hwf; right; exact Hp|].
    intros p [<-|[]]. split; [lia|intros _ [_ H]; apply H; intros u t g K; exact K]. }
  intros p Hp. apply R. apply in_or_app. destruct Hp as [<-|Hp]; [right; left; reflexivity|left; apply in_rev in Hp; exact Hp].
Qed.

(* with equal priorities the scan is the most-recent scan *)
Lemma prio_step_eq_recent mx p : p_prio mx = p_prio p -> prio_step mx p = recent_step mx p.
Proof.
  intros E. unfold prio_step, recent_step. rewrite E, Z.ltb_irrefl, Z.eqb_refl. reflexivity.
Qed.

Lemma fold_prio_eq_recent l : forall mx, (forall p, In p l -> p_prio p = p_prio mx) ->
  fold_left prio_step l mx = fold_left recent_step l mx.
Proof.
  induction l as [|q l IH]; intros mx H; cbn [fold_left]; [reflexivity|].
  rewrite prio_step_eq_recent by (symmetry; apply H; left; reflexivity).
  apply IH. intros p Hp. rewrite (H p (or_intror Hp)).
  destruct (recent_step_pick mx q) as [->| ->]; [reflexivity|symmetry; apply H; left; reflexivity].
Qed.

Theorem desirable_coincides_with_most_recent : forall fuel ps bound h st,
  (forall p q, In p ps -> In q ps -> p_prio p = p_prio q) ->
  (forall p, In p ps -> p_lag p <= bound) ->
  most_recent ps = RecentFound h st ->
  most_desirable (S fuel) ps bound = DesFound h.
Proof.
  intros fuel ps bound h st Hpr Hlag Hr. destruct ps as [|p0 r]; [discriminate|].
  cbn [most_recent] in Hr. destruct (detect_splitbrain _ _); [discriminate|]. inversion Hr; subst. clear Hr.
  assert (Et : most_priority (p0 :: r) = Some (fold_left recent_step r p0)).
  { cbn. f_equal. apply fold_prio_eq_recent. intros p Hp. apply Hpr; [right; exact Hp|left; reflexivity]. }
  apply most_desirable_top_within_bound; [exact Et|]. apply Hlag. apply (fold_recent_in r p0).
Qed.
