From Coq Require Import ZArith NArith Bool List Lia.
From Mysync Require Import Gtid.Interval Gtid.GtidSet Pure.Quorum Base.Prog Base.ProgFacts Base.Config
  Procs.NodeOps Procs.ActiveNodes Procs.Switchover Procs.Manager Proofs.SwitchoverProofs.
Import ListNotations.
Open Scope Z_scope.

Definition is_file_request (c : call) : Prop := match c with DcsCreate PSwitch _ => True | _ => False end.
Definition now_val (e : event) : Z := match ev_resp e with RZ z => z | _ => 0 end.
(* the clock was read as t somewhere in the trace *)
Definition now_in (tr : trace) (t : Z) : Prop := exists e, In e tr /\ ev_call e = Now /\ t = now_val e.

Lemma now_in_cons e tr t : now_in tr t -> now_in (e :: tr) t.
Proof. intros (x & H & K). exists x. split; [right; exact H|exact K]. Qed.
Lemma now_in_app_l t1 t2 t : now_in t1 t -> now_in (t1 ++ t2) t.
Proof. intros (x & H & K). exists x. split; [apply in_or_app; left; exact H|exact K]. Qed.
Lemma now_in_app_r t1 t2 t : now_in t2 t -> now_in (t1 ++ t2) t.
Proof. intros (x & H & K). exists x. split; [apply in_or_app; right; exact H|exact K]. Qed.

Lemma run_now {A} s (k : Z -> prog A) tr o : runs (t <- now_ s ;; k t) tr o ->
  exists e tr', tr = e :: tr' /\ ev_call e = Now /\ runs (k (now_val e)) tr' o.
Proof.
  unfold now_. cbn [bind runs]. destruct tr as [|e tr']; [intros []|]. intros (_ & Ec & H).
  exists e, tr'. split; [reflexivity|]. split; [exact Ec|]. unfold now_val. destruct (ev_resp e); exact H.
Qed.

Lemma run_ret {A} (a b : A) tr : runs (Ret a) tr (Done b) -> tr = [] /\ a = b.
Proof. cbn. intros [-> H]. inversion H. auto. Qed.

(* ---------------------------------------------------------------- approveFailover *)
(* the last-switch gate as read in this run *)
Definition last_ok (cfg : config) (tr : trace) : Prop :=
  exists e, In e tr /\ ev_call e = DcsGet PLastSwitch /\
    (ev_resp e = RErr ENotFound \/
     exists last ok fin t, ev_resp e = RVal (VSwitch last) /\ sw_result last = Some (ok, fin) /\ now_in tr t /\
       (fin = 0 \/ c_failover_cooldown cfg <= t - fin \/ sw_cause_ last <> CauseAuto)).

Lemma approve_tail_true cfg cs active tr : runs (approve_tail cfg cs active) tr (Done true) ->
  check_quorum (c_semi_sync cfg) (c_wait_count cfg) (Z.of_nat (length active)) (count_alive_ha_slaves_within active cs) = true /\ last_ok cfg tr.
Proof.
  unfold approve_tail. destruct (check_quorum _ _ _ _); cbn [negb]; [|intros H; apply run_ret in H; destruct H; discriminate].
  intros H. split; [reflexivity|]. cbn [runs] in H. destruct tr as [|e tr']; [destruct H|]. destruct H as (_ & Ec & H).
  exists e. split; [left; reflexivity|]. split; [exact Ec|].
  destruct (ev_resp e) as [er| | | | | | | | | | |v| | |]; try (apply run_ret in H; destruct H; discriminate).
  - destruct er; try (apply run_ret in H; destruct H; discriminate). left. reflexivity.
  - destruct v; try (apply run_ret in H; destruct H; discriminate).
    destruct (sw_result s) as [[ok fin]|] eqn:Es; [|apply run_ret in H; destruct H; discriminate].
    apply run_now in H. destruct H as (e2 & tr2 & -> & Ec2 & H). apply run_ret in H. destruct H as [-> K].
    right. exists s, ok, fin, (now_val e2). split; [reflexivity|]. split; [exact Es|].
    split; [exists e2; split; [right; left; reflexivity|auto]|].
    apply negb_true_iff in K. apply andb_false_iff in K. destruct K as [K|K].
    + apply andb_false_iff in K. destruct K as [K|K].
      * left. apply negb_false_iff in K. apply Z.eqb_eq in K. exact K.
      * right. left. apply Z.ltb_ge in K. exact K.
    + right. right. destruct (sw_cause_ s); try discriminate; intros; discriminate.
Qed.

Lemma approve_pre_true cfg cs msd m master tr : runs (approve_pre cfg cs msd m master) tr (Done true) ->
  crash_recovered cfg msd = true \/ ns_fs_ro msd = true \/
  (all_others_replicating cs = false /\
   (c_failover_delay cfg <= 0 \/ failed_at m master = 0 \/ exists t, now_in tr t /\ c_failover_delay cfg <= t - failed_at m master)).
Proof.
  unfold approve_pre. destruct (crash_recovered cfg msd); [left; reflexivity|]. destruct (ns_fs_ro msd); [right; left; reflexivity|].
  destruct (all_others_replicating cs); [intros H; apply run_ret in H; destruct H; discriminate|].
  intros H. right. right. split; [reflexivity|].
  destruct (0 <? c_failover_delay cfg) eqn:Ed; [|left; apply Z.ltb_ge in Ed; exact Ed].
  apply run_now in H. destruct H as (e & tr' & -> & Ec & H). apply run_ret in H. destruct H as [-> K].
  apply orb_true_iff in K. destruct K as [K|K]; [right; left; apply Z.eqb_eq in K; exact K|].
  right. right. exists (now_val e). split; [exists e; split; [left; reflexivity|auto]|].
  apply negb_true_iff in K. apply Z.ltb_ge in K. exact K.
Qed.

(* C05: what an approval implies, for every response of every call *)
Theorem approve_failover_true cfg cs msd active m master tr :
  runs (approve_failover cfg cs msd active m master) tr (Done true) ->
  c_failover cfg = true /\
  (crash_recovered cfg msd = true \/ ns_fs_ro msd = true \/
   (all_others_replicating cs = false /\
    (c_failover_delay cfg <= 0 \/ failed_at m master = 0 \/ exists t, now_in tr t /\ c_failover_delay cfg <= t - failed_at m master))) /\
  check_quorum (c_semi_sync cfg) (c_wait_count cfg) (Z.of_nat (length active)) (count_alive_ha_slaves_within active cs) = true /\
  last_ok cfg tr.
Proof.
  unfold approve_failover. destruct (c_failover cfg); cbn [negb]; [|intros H; apply run_ret in H; destruct H; discriminate].
  intros H. split; [reflexivity|].
  destruct (runs_bind_inv _ _ _ _ H) as [(t1 & t2 & pre & R1 & R2 & ->)|(s & _ & K)]; [|discriminate K].
  destruct pre; cbn [negb] in R2; [|apply run_ret in R2; destruct R2; discriminate].
  apply approve_pre_true in R1. apply approve_tail_true in R2. destruct R2 as [Q L].
  split; [|split; [exact Q|]].
  - destruct R1 as [R1|[R1|[R1 R1']]]; [left; exact R1|right; left; exact R1|]. right. right. split; [exact R1|].
    destruct R1' as [D|[D|(t & Nt & D)]]; [left; exact D|right; left; exact D|]. right. right. exists t. split; [apply now_in_app_l; exact Nt|exact D].
  - destruct L as (e & Hin & Ec & L). exists e. split; [apply in_or_app; right; exact Hin|]. split; [exact Ec|].
    destruct L as [L|(last & ok & fin & t & E1 & E2 & Nt & L)]; [left; exact L|]. right. exists last, ok, fin, t.
    split; [exact E1|]. split; [exact E2|]. split; [apply now_in_app_r; exact Nt|exact L].
Qed.

Lemma assoc_set_same {V} h (v : V) l : assoc h (assoc_set h v l) = Some v.
Proof.
  induction l as [|[k w] r IH]; cbn; [rewrite N.eqb_refl; reflexivity|].
  destruct (N.eqb h k) eqn:E; cbn; rewrite E; [reflexivity|exact IH].
Qed.

(* ---------------------------------------------------------------- failure detection *)
Definition nofile (c : call) : Prop := ~ is_file_request c.
Ltac nf := first [exact I | (intros K; exact K) | (unfold nofile, is_file_request; intros K; exact K) | (unfold nofile, is_file_request; tauto)].

Ltac pac0 := repeat first
  [ exact I
  | match goal with
    | |- allcalls _ (bind _ _) => apply allcalls_bind; [|intros ?]
    | |- allcalls _ (match ?x with _ => _ end) => destruct x
    | |- allcalls _ (if ?x then _ else _) => destruct x
    | |- allcalls _ (let '(_, _) := ?x in _) => destruct x
    | |- allcalls _ (Do _ _ _) => cbn [allcalls]; split; [|intros ?]
    | |- allcalls _ (Ret _) => exact I
    | |- allcalls _ (Panic _) => exact I
    end ].

Lemma nf_start_timing_at n t : allcalls (fun _ c => nofile c) (start_timing_at n t).
Proof. unfold start_timing_at, start_timing_now, now_, dcs_set_. pac0; nf. Qed.
Lemma nf_stop_timing n : allcalls (fun _ c => nofile c) (stop_timing n).
Proof. unfold stop_timing, now_, dcs_get_time, dcs_delete_. pac0; nf. Qed.
Lemma nf_approve cfg cs msd active m master : allcalls (fun _ c => nofile c) (approve_failover cfg cs msd active m master).
Proof. unfold approve_failover, approve_pre, approve_tail, now_. pac0; nf. Qed.

Definition auto_request (master : host) (t : Z) : dval :=
  VSwitch {| sw_from := Some master; sw_to := None; sw_cause_ := CauseAuto; sw_kind := SwFailover; sw_master_transition := true;
             sw_run_count := 0; sw_initiated_at := t; sw_started := false; sw_started_at := 0; sw_result := None |}.

Lemma issue_failover_events master tr o : runs (issue_failover master) tr o ->
  forall e, In e tr -> is_file_request (ev_call e) -> exists t, ev_call e = DcsCreate PSwitch (auto_request master t).
Proof.
  unfold issue_failover. intros H e Hin Hf. apply run_now in H. destruct H as (e0 & tr' & -> & Ec & H).
  destruct Hin as [<-|Hin]; [rewrite Ec in Hf; destruct Hf|].
  cbn [runs] in H. destruct tr' as [|e1 tr'']; [destruct H|]. destruct H as (_ & Ec1 & H).
  destruct Hin as [<-|Hin]; [exists (now_val e0); exact Ec1|]. exfalso.
  destruct (ev_resp e1) as [er| | | | | | | | | | | | | |]; cbn in H; destruct H as [-> _]; destruct Hin.
Qed.

Lemma Forall_nofile_in tr e : Forall (fun e => nofile (ev_call e)) tr -> In e tr -> is_file_request (ev_call e) -> False.
Proof. intros F Hin K. rewrite Forall_forall in F. exact (F e Hin K). Qed.

(* C05: failure detection files a request only with light maintenance off, a bad health record and an
   approval obtained in the same run with the clock this iteration left in memory; and what it files is
   the automatic failover from the recorded master *)
Theorem failure_detection_files cfg cs msd active m master light tr o :
  runs (failure_detection cfg cs msd active m master light) tr o ->
  forall e, In e tr -> is_file_request (ev_call e) ->
    light = false /\ (ns_ping_ok msd = false \/ ns_fs_ro msd = true) /\
    (exists t, ev_call e = DcsCreate PSwitch (auto_request master t)) /\
    exists m1 tr_a, runs (approve_failover cfg cs msd active m1 master) tr_a (Done true) /\ incl tr_a tr /\
      (failed_at m master <> 0 -> m1 = m) /\ (failed_at m master = 0 -> exists t, now_in tr t /\ failed_at m1 master = t).
Proof.
  unfold failure_detection. intros H e Hin Hf.
  destruct (negb (ns_ping_ok msd) || ns_fs_ro msd) eqn:Ebad.
  2:{ exfalso. destruct (negb (failed_at m master =? 0)).
      - assert (A : allcalls (fun _ c => nofile c) (stop_timing 0 ;;; stop_timing 1 ;;; Ret (false, set_failed_at_ m master 0))).
        { apply allcalls_bind; [apply nf_stop_timing|]. intros _. apply allcalls_bind; [apply nf_stop_timing|]. intros; exact I. }
        exact (Forall_nofile_in _ _ (allcalls_sound _ _ A _ _ H) Hin Hf).
      - cbn in H. destruct H as [-> _]. destruct Hin. }
  assert (Hbad : ns_ping_ok msd = false \/ ns_fs_ro msd = true).
  { apply orb_true_iff in Ebad. destruct Ebad as [E|E]; [left; apply negb_true_iff in E; exact E|right; exact E]. }
  destruct (runs_bind_inv _ _ _ _ H) as [(t1 & t2 & m1 & R1 & R2 & ->)|(s & R1 & ->)].
  2:{ exfalso. destruct (failed_at m master =? 0).
      - assert (A : allcalls (fun _ c => nofile c) (t <- now_ 531 ;; start_timing_at 0 t ;;; start_timing_at 1 t ;;; Ret (set_failed_at_ m master t))).
        { unfold now_. cbn [bind allcalls]. split; [nf|]. intros r. apply allcalls_bind; [apply nf_start_timing_at|]. intros _.
          apply allcalls_bind; [apply nf_start_timing_at|]. intros; exact I. }
        exact (Forall_nofile_in _ _ (allcalls_sound _ _ A _ _ R1) Hin Hf).
      - cbn in R1. destruct R1 as [_ K]. discriminate K. }
  (* the clock part issues no request *)
  assert (F1 : Forall (fun e => nofile (ev_call e)) t1).
  { destruct (failed_at m master =? 0).
    - assert (A : allcalls (fun _ c => nofile c) (t <- now_ 531 ;; start_timing_at 0 t ;;; start_timing_at 1 t ;;; Ret (set_failed_at_ m master t))).
      { unfold now_. cbn [bind allcalls]. split; [nf|]. intros r. apply allcalls_bind; [apply nf_start_timing_at|]. intros _.
        apply allcalls_bind; [apply nf_start_timing_at|]. intros; exact I. }
      exact (allcalls_sound _ _ A _ _ R1).
    - cbn in R1. destruct R1 as [-> _]. constructor. }
  assert (CLK : (failed_at m master <> 0 -> m1 = m) /\ (failed_at m master = 0 -> exists t, now_in t1 t /\ failed_at m1 master = t)).
  { destruct (failed_at m master =? 0) eqn:E0.
    - apply Z.eqb_eq in E0. split; [intros K; contradiction|]. intros _.
      apply run_now in R1. destruct R1 as (e0 & tr' & -> & Ec & R1). exists (now_val e0). split; [exists e0; split; [left; reflexivity|auto]|].
      destruct (runs_bind_inv _ _ _ _ R1) as [(a1 & a2 & u1 & _ & R1' & _)|(s & _ & K)]; [|discriminate K].
      destruct (runs_bind_inv _ _ _ _ R1') as [(b1 & b2 & u2 & _ & R1'' & _)|(s & _ & K)]; [|discriminate K].
      apply run_ret in R1''. destruct R1'' as [_ <-]. unfold failed_at, set_failed_at_, with_an. cbn [mm_an am_failed_at].
      rewrite assoc_set_same. reflexivity.
    - apply Z.eqb_neq in E0. split; [|intros K; contradiction]. intros _. apply run_ret in R1. destruct R1 as [_ <-]. reflexivity. }
  apply in_app_or in Hin. destruct Hin as [Hin|Hin]; [exfalso; exact (Forall_nofile_in _ _ F1 Hin Hf)|].
  destruct light; [cbn in R2; destruct R2 as [-> _]; destruct Hin|].
  split; [reflexivity|]. split; [exact Hbad|].
  destruct (runs_bind_inv _ _ _ _ R2) as [(a1 & a2 & ap & Ra & Rb & ->)|(s & Ra & ->)].
  2:{ exfalso. exact (Forall_nofile_in _ _ (allcalls_sound _ _ (nf_approve _ _ _ _ _ _) _ _ Ra) Hin Hf). }
  apply in_app_or in Hin. destruct Hin as [Hin|Hin]; [exfalso; exact (Forall_nofile_in _ _ (allcalls_sound _ _ (nf_approve _ _ _ _ _ _) _ _ Ra) Hin Hf)|].
  destruct ap.
  2:{ exfalso. cbn in Rb. destruct Rb as [-> _]. destruct Hin. }
  split.
  - (* the request itself *)
    assert (IN2 : exists tri oi, runs (issue_failover master) tri oi /\ In e tri).
    { destruct (runs_bind_inv _ _ _ _ Rb) as [(b1 & b2 & u & Rb1 & Rb2 & ->)|(s & Rb1 & _)].
      - cbn in Rb2. destruct Rb2 as [-> _]. rewrite app_nil_r in Hin.
        destruct (runs_bind_inv _ _ _ _ Rb1) as [(c1 & c2 & x & Rc1 & Rc2 & ->)|(s & Rc1 & _)].
        + cbn in Rc2. destruct Rc2 as [-> _]. rewrite app_nil_r in Hin. eauto.
        + eauto.
      - destruct (runs_bind_inv _ _ _ _ Rb1) as [(c1 & c2 & x & Rc1 & Rc2 & ->)|(s' & Rc1 & _)].
        + cbn in Rc2. destruct Rc2 as [-> _]. rewrite app_nil_r in Hin. eauto.
        + eauto. }
    destruct IN2 as (tri & oi & Ri & Hi). exact (issue_failover_events _ _ _ Ri _ Hi Hf).
  - exists m1, a1. split; [exact Ra|]. split; [intros x Hx; apply in_or_app; right; apply in_or_app; left; exact Hx|].
    destruct CLK as [C1 C2]. split; [exact C1|]. intros Z0. destruct (C2 Z0) as (t & Nt & Et). exists t. split; [apply now_in_app_l; exact Nt|exact Et].
Qed.

(* ---------------------------------------------------------------- the failure clock over histories *)
(* one evaluation of the master's health record by a manager: bad -> keep a running clock or start it at
   `now`; good -> reset *)
Definition clock_step (clk : Z) (ev : bool * Z) : Z :=
  let '(bad, now) := ev in if bad then (if clk =? 0 then now else clk) else 0.

Definition is_bad (msd : node_state) : bool := negb (ns_ping_ok msd) || ns_fs_ro msd.

Theorem failure_detection_clock cfg cs msd active m master light tr b m' :
  runs (failure_detection cfg cs msd active m master light) tr (Done (b, m')) ->
  exists now, failed_at m' master = clock_step (failed_at m master) (is_bad msd, now) /\
              (is_bad msd = true -> failed_at m master = 0 -> now_in tr now).
Proof.
  unfold failure_detection, is_bad, clock_step. intros H. destruct (negb (ns_ping_ok msd) || ns_fs_ro msd).
  - destruct (runs_bind_inv _ _ _ _ H) as [(t1 & t2 & m1 & R1 & R2 & ->)|(s & _ & K)]; [|discriminate K].
    assert (M : m' = m1).
    { destruct light; [apply run_ret in R2; destruct R2 as [_ K]; inversion K; reflexivity|].
      destruct (runs_bind_inv _ _ _ _ R2) as [(a1 & a2 & ap & _ & Rb & _)|(s & _ & K)]; [|discriminate K].
      destruct (runs_bind_inv _ _ _ _ Rb) as [(b1 & b2 & u & _ & Rb2 & _)|(s & _ & K)]; [|discriminate K].
      apply run_ret in Rb2. destruct Rb2 as [_ K]. inversion K; reflexivity. }
    subst m'. destruct (failed_at m master =? 0) eqn:E0.
    + apply run_now in R1. destruct R1 as (e0 & tr' & -> & Ec & R1). exists (now_val e0).
      destruct (runs_bind_inv _ _ _ _ R1) as [(a1 & a2 & u1 & _ & R1' & _)|(s & _ & K)]; [|discriminate K].
      destruct (runs_bind_inv _ _ _ _ R1') as [(b1 & b2 & u2 & _ & R1'' & _)|(s & _ & K)]; [|discriminate K].
      apply run_ret in R1''. destruct R1'' as [_ <-]. split.
      * unfold failed_at, set_failed_at_, with_an. cbn [mm_an am_failed_at]. rewrite assoc_set_same. reflexivity.
      * intros _ _. exists e0. split; [left; reflexivity|auto].
    + apply run_ret in R1. destruct R1 as [_ <-]. exists 0. split; [reflexivity|]. intros _ K. apply Z.eqb_neq in E0. contradiction.
  - exists 0. split; [|discriminate]. destruct (negb (failed_at m master =? 0)) eqn:E0.
    + destruct (runs_bind_inv _ _ _ _ H) as [(a1 & a2 & u1 & _ & R1 & _)|(s & _ & K)]; [|discriminate K].
      destruct (runs_bind_inv _ _ _ _ R1) as [(b1 & b2 & u2 & _ & R2 & _)|(s & _ & K)]; [|discriminate K].
      apply run_ret in R2. destruct R2 as [_ K]. inversion K. unfold failed_at, set_failed_at_, with_an. cbn [mm_an am_failed_at].
      rewrite assoc_set_same. reflexivity.
    + apply run_ret in H. destruct H as [_ K]. inversion K. subst. apply negb_false_iff in E0. apply Z.eqb_eq in E0. exact E0.
Qed.

(* any history of evaluations by one manager process (clock 0 = not running; evaluation instants are
   not 0): a running clock is the instant of the FIRST evaluation of the trailing run of bad ones, so
   every evaluation since then saw a bad record *)
Fixpoint trailing_bad (h : list (bool * Z)) : list (bool * Z) :=
  match h with
  | [] => []
  | (bad, now) :: r => match trailing_bad r with
                      | [] => if forallb fst r then (if bad then (bad, now) :: r else r) else []
                      | l => l
                      end
  end.

Lemma clock_history : forall (h : list (bool * Z)) (clk0 : Z),
  Forall (fun ev => snd ev <> 0) h ->
  let clk := fold_left clock_step h clk0 in
  clk <> 0 ->
  (exists pre suf, h = pre ++ suf /\ suf <> [] /\ Forall (fun ev => fst ev = true) suf /\
                   match suf with ev :: _ => clk = snd ev | [] => False end /\
                   match rev pre with ev :: _ => fst ev = false | [] => clk0 = 0 end)
  \/ (Forall (fun ev => fst ev = true) h /\ clk = clk0).
Proof.
  intros h. induction h as [|[bad now] r IH] using rev_ind; intros clk0 Hnz; cbn zeta.
  - cbn. intros H. right. split; [constructor|reflexivity].
  - rewrite fold_left_app. cbn [fold_left clock_step]. apply Forall_app in Hnz. destruct Hnz as [Hr Hlast].
    inversion Hlast as [|? ? Hn _]; subst. cbn in Hn.
    set (c := fold_left clock_step r clk0) in *. destruct bad.
    + destruct (c =? 0) eqn:Ec.
      * intros _. apply Z.eqb_eq in Ec. left. exists r, [(true, now)]. split; [reflexivity|]. split; [discriminate|].
        split; [constructor; [reflexivity|constructor]|]. split; [reflexivity|].
        (* the clock was 0 before: either the previous evaluation was good or there was none and clk0 = 0 *)
        destruct (rev r) as [|[b1 n1] rr] eqn:Er.
        -- assert (r = []) by (apply (f_equal (@rev _)) in Er; rewrite rev_involutive in Er; exact Er). subst r. exact Ec.
        -- cbn. destruct b1; [|reflexivity]. exfalso.
           assert (Er' : r = rev rr ++ [(true, n1)]) by (apply (f_equal (@rev _)) in Er; rewrite rev_involutive in Er; exact Er).
           subst r. unfold c in Ec. rewrite fold_left_app in Ec. cbn [fold_left clock_step] in Ec.
           apply Forall_app in Hr. destruct Hr as [_ Hr]. inversion Hr as [|? ? Hn1 _]; subst. cbn in Hn1.
           destruct (fold_left clock_step (rev rr) clk0 =? 0) eqn:E2; [contradiction|]. apply Z.eqb_neq in E2. contradiction.
      * intros _. apply Z.eqb_neq in Ec. destruct (IH clk0 Hr Ec) as [(pre & suf & E & Hne & Hall & Hc & Hp)|[Hall Hc]].
        -- left. exists pre, (suf ++ [(true, now)]). split; [rewrite E, app_assoc; reflexivity|].
           split; [destruct suf; discriminate|]. split; [apply Forall_app; split; [exact Hall|constructor; [reflexivity|constructor]]|].
           split; [destruct suf as [|ev suf']; [contradiction|exact Hc]|exact Hp].
        -- right. split; [apply Forall_app; split; [exact Hall|constructor; [reflexivity|constructor]]|exact Hc].
    + intros K. contradiction.
Qed.

(* ---------------------------------------------------------------- the suspicious-master guard *)
Definition timing_only (c : call) : Prop :=
  match c with Now | DcsGet (PTiming _) | DcsDelete (PTiming _) => True | _ => False end.

Theorem suspicious_master_does_nothing cfg cs csd active m master light msd ms :
  assoc master csd = Some msd -> is_bad msd = false ->
  assoc master cs = Some ms -> ns_ping_ok ms = false ->
  allcalls (fun _ c => timing_only c) (after_requests cfg cs csd active m master light) /\
  forall tr g m', runs (after_requests cfg cs csd active m master light) tr (Done (g, m')) -> g = GNext NxManager.
Proof.
  intros Hd Hb Hs Hp. unfold after_requests. rewrite Hd. unfold failure_detection. unfold is_bad in Hb. rewrite Hb. split.
  - assert (ST : forall n, allcalls (fun _ c => timing_only c) (stop_timing n)).
    { intros n. unfold stop_timing, now_, dcs_get_time, dcs_delete_. pac0; exact I. }
    apply allcalls_bind.
    + destruct (negb (failed_at m master =? 0)); [|exact I].
      apply allcalls_bind; [apply ST|]. intros _. apply allcalls_bind; [apply ST|]. intros; exact I.
    + intros [b mm]. cbn [fst snd]. destruct b; [exact I|]. rewrite Hs, Hp. exact I.
  - intros tr g m' H. destruct (negb (failed_at m master =? 0)).
    + destruct (runs_bind_inv _ _ _ _ H) as [(a1 & a2 & fd & R1 & R2 & _)|(s & _ & K)]; [|discriminate K].
      destruct (runs_bind_inv _ _ _ _ R1) as [(b1 & b2 & u1 & _ & R1' & _)|(s & _ & K)]; [|discriminate K].
      destruct (runs_bind_inv _ _ _ _ R1') as [(c1 & c2 & u2 & _ & R1'' & _)|(s & _ & K)]; [|discriminate K].
      apply run_ret in R1''. destruct R1'' as [_ <-]. cbn [fst snd] in R2. rewrite Hs, Hp in R2. cbn [negb] in R2.
      apply run_ret in R2. destruct R2 as [_ K]. inversion K. reflexivity.
    + cbn [bind fst snd] in H. rewrite Hs, Hp in H. apply run_ret in H. destruct H as [_ K]. inversion K. reflexivity.
Qed.

(* ================================================================ C06: the life of a switch request *)
Definition same_request (a b : switch_rec) : Prop :=
  sw_from a = sw_from b /\ sw_to a = sw_to b /\ sw_cause_ a = sw_cause_ b /\ sw_kind a = sw_kind b /\
  sw_master_transition a = sw_master_transition b /\ sw_initiated_at a = sw_initiated_at b.

Lemma same_request_refl a : same_request a a. Proof. repeat split. Qed.
Lemma with_result_same sw ok t rc : same_request sw (with_result sw ok t rc). Proof. repeat split. Qed.

(* the attempt limit: a planned request at or over the limit is rejected, whatever the cluster looks like *)
Theorem approve_switchover_limit cfg sw active cs :
  is_failover sw = false -> 0 < c_switchover_max_attempts cfg -> c_switchover_max_attempts cfg <= sw_run_count sw ->
  approve_switchover cfg sw active cs = Some 814.
Proof.
  intros Hf Hm Hr. unfold approve_switchover. rewrite Hf. cbn [negb andb].
  assert (0 <? c_switchover_max_attempts cfg = true) as -> by (apply Z.ltb_lt; exact Hm).
  assert (c_switchover_max_attempts cfg <=? sw_run_count sw = true) as -> by (apply Z.leb_le; exact Hr). reflexivity.
Qed.

(* an approved request is not re-judged: once an attempt was made, only the attempt limit can reject it *)
Theorem approve_switchover_not_rejudged cfg sw active cs :
  (0 < sw_run_count sw \/ sw_started sw = true) ->
  (is_failover sw = true \/ c_switchover_max_attempts cfg <= 0 \/ sw_run_count sw < c_switchover_max_attempts cfg) ->
  approve_switchover cfg sw active cs = None.
Proof.
  intros Hr Hl. unfold approve_switchover.
  assert (negb (is_failover sw) && (0 <? c_switchover_max_attempts cfg) && (c_switchover_max_attempts cfg <=? sw_run_count sw) = false) as ->.
  { destruct Hl as [Hl|[Hl|Hl]].
    - rewrite Hl. reflexivity.
    - assert (0 <? c_switchover_max_attempts cfg = false) as -> by (apply Z.ltb_ge; exact Hl). rewrite andb_false_r. reflexivity.
    - assert (c_switchover_max_attempts cfg <=? sw_run_count sw = false) as -> by (apply Z.leb_gt; exact Hl). rewrite andb_false_r. reflexivity. }
  destruct Hr as [Hr|Hr]; [assert (0 <? sw_run_count sw = true) as -> by (apply Z.ltb_lt; exact Hr); reflexivity|].
  rewrite Hr. rewrite orb_true_r. reflexivity.
Qed.

(* a fresh request is judged by the quorum of alive replicas in the published list only *)
Theorem approve_switchover_fresh cfg sw active cs :
  sw_run_count sw = 0 -> sw_started sw = false -> (is_failover sw = true \/ c_switchover_max_attempts cfg <= 0 \/ 0 < c_switchover_max_attempts cfg) ->
  (approve_switchover cfg sw active cs = None <->
   check_quorum (c_semi_sync cfg) (c_wait_count cfg) (Z.of_nat (length active)) (count_alive_ha_slaves_within active cs) = true).
Proof.
  intros Hr Hst _. unfold approve_switchover. rewrite Hr, Hst.
  assert (negb (is_failover sw) && (0 <? c_switchover_max_attempts cfg) && (c_switchover_max_attempts cfg <=? 0) = false) as ->.
  { destruct (0 <? c_switchover_max_attempts cfg) eqn:E; [|rewrite andb_false_r; reflexivity].
    apply Z.ltb_lt in E. assert (c_switchover_max_attempts cfg <=? 0 = false) as -> by (apply Z.leb_gt; exact E). rewrite andb_false_r. reflexivity. }
  cbn [Z.ltb Z.compare orb]. destruct (check_quorum _ _ _ _); split; intros H; try reflexivity; discriminate.
Qed.

(* FailSwitchover: one coordination write - the SAME request with the attempt counted and a failed result *)
Theorem fail_switchover_counts sw tr o : runs (fail_switchover sw) tr o ->
  exists e0 e1, tr = [e0; e1] /\ ev_call e0 = Now /\
    ev_call e1 = DcsSet PSwitch (VSwitch (with_result sw false (now_val e0) (sw_run_count sw + 1))).
Proof.
  unfold fail_switchover. intros H. apply run_now in H. destruct H as (e0 & tr' & -> & Ec & H).
  unfold dcs_set_ in H. cbn [runs] in H. destruct tr' as [|e1 tr'']; [destruct H|]. destruct H as (_ & Ec1 & H).
  exists e0, e1. split; [|split; [exact Ec|exact Ec1]].
  destruct (ev_resp e1) as [er| | | | | | | | | | | | | |]; cbn in H; destruct H as [-> _]; reflexivity.
Qed.

(* FinishSwitchover: the request is removed and then recorded exactly once - as succeeded iff ok - and the
   record is the same request with its result; nothing is recorded when the removal fails *)
Definition is_switch_key_write (c : call) : Prop :=
  match c with
  | DcsDelete PSwitch | DcsSet PSwitch _ | DcsCreate PSwitch _ | DcsSet PLastSwitch _ | DcsSet PLastRejected _ => True
  | _ => False
  end.

Fixpoint switch_writes (tr : trace) : list event :=
  match tr with
  | [] => []
  | e :: r => match ev_call e with
              | DcsDelete PSwitch | DcsSet PSwitch _ | DcsCreate PSwitch _ | DcsSet PLastSwitch _ | DcsSet PLastRejected _ => e :: switch_writes r
              | _ => switch_writes r
              end
  end.

Lemma switch_writes_app a b : switch_writes (a ++ b) = switch_writes a ++ switch_writes b.
Proof. induction a as [|e r IH]; [reflexivity|]. cbn. destruct (ev_call e); try exact IH; destruct p; try exact IH; cbn; rewrite IH; reflexivity. Qed.

Definition timing_call (c : call) : Prop := match c with Now | DcsGet (PTiming _) | DcsDelete (PTiming _) | DcsSet (PTiming _) _ => True | _ => False end.

Lemma switch_writes_timing tr : Forall (fun e => timing_call (ev_call e)) tr -> switch_writes tr = [].
Proof.
  induction tr as [|e r IH]; intros H; [reflexivity|]. inversion H as [|? ? He Hr]; subst. cbn.
  destruct (ev_call e); try (apply IH; exact Hr); destruct p; try (apply IH; exact Hr); destruct He.
Qed.

Ltac pnp := repeat first
  [ exact I
  | match goal with
    | |- nopanic (bind _ _) => apply nopanic_bind; [|intros ?]
    | |- nopanic (match ?x with _ => _ end) => destruct x
    | |- nopanic (if ?x then _ else _) => destruct x
    | |- nopanic (Do _ _ _) => cbn [nopanic]; intros ?
    | |- nopanic (Ret _) => exact I
    end ].
Lemma np_stop_timing n : nopanic (stop_timing n).
Proof. unfold stop_timing, now_, dcs_get_time, dcs_delete_. pnp. Qed.
Lemma np_log_failure sw : nopanic (log_switchover_failure sw).
Proof. unfold log_switchover_failure, now_, dcs_get_time, dcs_delete_. pnp. Qed.

Lemma tc_stop_timing n : allcalls (fun _ c => timing_call c) (stop_timing n).
Proof. unfold stop_timing, now_, dcs_get_time, dcs_delete_. pac0; exact I. Qed.
Lemma tc_log_failure sw : allcalls (fun _ c => timing_call c) (log_switchover_failure sw).
Proof. unfold log_switchover_failure, now_, dcs_get_time, dcs_delete_. pac0; exact I. Qed.

Theorem finish_switchover_records sw ok tr o : runs (finish_switchover sw ok) tr o ->
  exists t rc,
    let rec := with_result sw ok t rc in
    match switch_writes tr with
    | [d] => ev_call d = DcsDelete PSwitch /\ ev_resp d <> ROk
    | [d; s] => ev_call d = DcsDelete PSwitch /\ ev_resp d = ROk /\
                ev_call s = (if ok then DcsSet PLastSwitch (VSwitch rec) else DcsSet PLastRejected (VSwitch rec))
    | _ => False
    end.
Proof.
  unfold finish_switchover. intros H. apply run_now in H. destruct H as (e0 & tr' & -> & Ec & H).
  exists (now_val e0), (sw_run_count sw). cbn zeta.
  assert (W0 : switch_writes (e0 :: tr') = switch_writes tr') by (cbn; rewrite Ec; reflexivity). rewrite W0. clear W0.
  destruct (runs_bind_inv _ _ _ _ H) as [(t1 & t2 & u & R1 & R2 & ->)|(s & R1 & ->)].
  2:{ exfalso. assert (A : nopanic (if negb ok then log_switchover_failure (with_result sw ok (now_val e0) (sw_run_count sw))
                              else if negb (is_failover sw) then stop_timing 2 else stop_timing 1)).
      { destruct (negb ok); [apply np_log_failure|]. destruct (negb (is_failover sw)); apply np_stop_timing. }
      destruct (nopanic_sound _ A _ _ R1) as [x K]. discriminate K. }
  assert (T1 : switch_writes t1 = []).
  { apply switch_writes_timing. destruct (negb ok); [exact (allcalls_sound _ _ (tc_log_failure _) _ _ R1)|].
    destruct (negb (is_failover sw)); exact (allcalls_sound _ _ (tc_stop_timing _) _ _ R1). }
  rewrite switch_writes_app, T1. cbn [app].
  unfold dcs_delete_ in R2. cbn [bind runs] in R2. destruct t2 as [|d t2']; [destruct R2|]. destruct R2 as (_ & Ed & R2).
  cbn [switch_writes]. rewrite Ed.
  destruct (ev_resp d) as [er| | | | | | | | | | | | | |] eqn:Er; cbn [bind] in R2;
    try (cbn in R2; destruct R2 as [-> _]; cbn; split; [exact Ed|discriminate]).
  destruct ok; unfold dcs_set_ in R2; cbn [runs] in R2; (destruct t2' as [|s t3]; [destruct R2|]); destruct R2 as (_ & Es & R2);
    cbn [switch_writes]; rewrite Es;
    (assert (t3 = []) as -> by (destruct (ev_resp s) as [er| | | | | | | | | | | | | |]; cbn in R2; destruct R2 as [-> _]; reflexivity));
    cbn; repeat split; auto.
Qed.

(* a timed-out request is finished as rejected (after the repair ff31fd9): the only coordination writes of the
   iteration are the removal of the request and - when that succeeded - its record under last_rejected_switch;
   nothing else is attempted *)
Theorem timed_out_request_is_rejected cfg env m cs active master sw tr o :
  sw_initiated_at sw <> 0 ->
  runs (handle_switchover cfg env m cs active master sw) tr o ->
  forall e0 tr', tr = e0 :: tr' -> c_switchover_timeout cfg < now_val e0 - sw_initiated_at sw ->
  exists t rc,
    let rec := with_result sw false t rc in
    match switch_writes tr with
    | [d] => ev_call d = DcsDelete PSwitch /\ ev_resp d <> ROk
    | [d; s] => ev_call d = DcsDelete PSwitch /\ ev_resp d = ROk /\ ev_call s = DcsSet PLastRejected (VSwitch rec)
    | _ => False
    end.
Proof.
  intros Hi H e0 tr' -> Ht. unfold handle_switchover in H. apply run_now in H. destruct H as (e & tr2 & E & Ec & H).
  inversion E; subst e tr2. clear E.
  assert (negb (sw_initiated_at sw =? 0) && (c_switchover_timeout cfg <? now_val e0 - sw_initiated_at sw) = true) as C.
  { apply andb_true_iff. split; [apply negb_true_iff; apply Z.eqb_neq; exact Hi|apply Z.ltb_lt; exact Ht]. }
  rewrite C in H.
  assert (W0 : forall t, switch_writes (e0 :: t) = switch_writes t) by (intros t; cbn; rewrite Ec; reflexivity).
  rewrite W0.
  destruct (runs_bind_inv _ _ _ _ H) as [(t1 & t2 & u & R1 & R2 & ->)|(s & R1 & ->)].
  - cbn in R2. destruct R2 as [-> _]. rewrite app_nil_r. exact (finish_switchover_records _ _ _ _ R1).
  - exact (finish_switchover_records _ _ _ _ R1).
Qed.

(* attempts are bounded over any history: every failed attempt adds one, and a planned request is rejected at
   the limit - so at most (limit - initial count) attempts are ever started *)
Theorem attempts_bounded cfg (sw : switch_rec) (n : nat) active cs :
  is_failover sw = false -> 0 < c_switchover_max_attempts cfg ->
  let sw_n := with_result sw false 0 (sw_run_count sw + Z.of_nat n) in
  c_switchover_max_attempts cfg <= sw_run_count sw + Z.of_nat n -> approve_switchover cfg sw_n active cs = Some 814.
Proof. intros Hf Hm sw_n Hn. apply approve_switchover_limit; [exact Hf|exact Hm|exact Hn]. Qed.

(* ================================================================ C09: maintenance *)
Definition frozen_call (c : call) : Prop :=
  match c with FileExists _ | FileWrite 3%N | DcsGet PMaintenance => True | _ => False end.

(* the paused loop: while the record exists and does not ask to leave (or cannot be read) the process only
   keeps its marker file and re-reads the record; its memory is untouched *)
Theorem state_maintenance_frozen cfg env m tr n m' :
  runs (state_maintenance cfg env m) tr (Done (n, m')) ->
  (forall e, In e tr -> ev_call e = DcsGet PMaintenance ->
     ev_resp e <> RErr ENotFound /\ forall mt, ev_resp e = RVal (VMaint mt) -> mt_should_leave mt = false) ->
  n = NxMaintenance /\ m' = m /\ Forall (fun e => frozen_call (ev_call e)) tr.
Proof.
  unfold state_maintenance. cbn [bind]. intros H Hm.
  cbn [runs] in H. destruct tr as [|e0 tr0]; [destruct H|]. destruct H as (_ & Ec0 & H).
  assert (F0 : frozen_call (ev_call e0)) by (rewrite Ec0; exact I).
  assert (REST : forall tr1, (forall e, In e tr1 -> In e (e0 :: tr0)) ->
     runs (Do 355 (DcsGet PMaintenance) (fun rm =>
             match rm with
             | RVal (VMaint mt) => if mt_should_leave mt then try_leave_maintenance cfg env m else Ret (NxMaintenance, m)
             | RErr ENotFound => try_leave_maintenance cfg env m
             | _ => Ret (NxMaintenance, m)
             end)) tr1 (Done (n, m')) ->
     n = NxMaintenance /\ m' = m /\ Forall (fun e => frozen_call (ev_call e)) tr1).
  { intros tr1 Hsub R. cbn [runs] in R. destruct tr1 as [|e1 tr2]; [destruct R|]. destruct R as (_ & Ec1 & R).
    destruct (Hm e1 (Hsub e1 (or_introl eq_refl)) Ec1) as [Hnf Hl].
    assert (F1 : frozen_call (ev_call e1)) by (rewrite Ec1; exact I).
    assert (FIN : runs (Ret (NxMaintenance, m)) tr2 (Done (n, m')) -> n = NxMaintenance /\ m' = m /\ Forall (fun e => frozen_call (ev_call e)) (e1 :: tr2)).
    { intros K. apply run_ret in K. destruct K as [-> K]. inversion K. split; [reflexivity|]. split; [reflexivity|]. constructor; [exact F1|constructor]. }
    destruct (ev_resp e1) as [er| | | | | | | | | | |v| | |] eqn:Er; try (apply FIN; exact R).
    - destruct er; try (apply FIN; exact R). exfalso. apply Hnf. reflexivity.
    - destruct v; try (apply FIN; exact R). rewrite (Hl m0 eq_refl) in R. apply FIN. exact R. }
  destruct (match ev_resp e0 with RBool b => b | _ => false end).
  - cbn [bind] in H. destruct (REST tr0 (fun e He => or_intror He) H) as (A & B & C). split; [exact A|]. split; [exact B|]. constructor; assumption.
  - cbn [bind runs] in H. destruct tr0 as [|e1 tr1]; [destruct H|]. destruct H as (_ & Ec1 & H). cbn [bind] in H.
    destruct (REST tr1 (fun e He => or_intror (or_intror He)) H) as (A & B & C). split; [exact A|]. split; [exact B|].
    constructor; [exact F0|]. constructor; [rewrite Ec1; exact I|exact C].
Qed.

(* candidates follow only after the acknowledgement, and then do nothing else *)
Definition registry_read (c : call) : Prop :=
  match c with DcsConnected | DcsChildren PHaNodes | DcsChildren PCascadeNodes | DcsGet (PCascadeNode _) | DcsGet PMaintenance => True | _ => False end.

Lemma rr_update_hosts m : allcalls (fun _ c => registry_read c) (update_hosts_info m).
Proof.
  unfold update_hosts_info, children_or_empty. cbn [bind allcalls]. split; [exact I|]. intros r.
  assert (CC : forall l, allcalls (fun _ c => registry_read c) (cascade_configs l)).
  { induction l as [|h t IH]; [exact I|]. cbn [cascade_configs allcalls]. split; [exact I|]. intros x. destruct x; try exact I. destruct v; try exact I. exact IH. }
  destruct r as [er| | | | | | | | | | | |l| |]; cbn [bind]; try exact I.
  - destruct er; cbn [bind]; try exact I. cbn [allcalls]. split; [exact I|]. intros r2.
    destruct r2 as [er2| | | | | | | | | | | |l2| |]; cbn [bind]; try exact I.
    + destruct er2; cbn [bind]; try exact I.
    + apply allcalls_bind; [apply CC|]. intros [|]; exact I.
  - cbn [allcalls]. split; [exact I|]. intros r2.
    destruct r2 as [er2| | | | | | | | | | | |l2| |]; cbn [bind]; try exact I.
    + destruct er2; cbn [bind]; try exact I.
    + apply allcalls_bind; [apply CC|]. intros [|]; exact I.
Qed.

Theorem state_candidate_follows m tr n m' :
  runs (state_candidate m) tr (Done (n, m')) ->
  (exists e mt, In e tr /\ ev_call e = DcsGet PMaintenance /\ ev_resp e = RVal (VMaint mt) /\ mt_paused mt = true /\ mt_light mt = false) ->
  n = NxMaintenance /\ Forall (fun e => registry_read (ev_call e)) tr.
Proof.
  unfold state_candidate. cbn [bind]. intros H (em & mt & Hin & Ecm & Erm & Hp & Hl).
  cbn [runs] in H. destruct tr as [|e0 tr0]; [destruct H|]. destruct H as (_ & Ec0 & H).
  assert (N0 : ev_call e0 <> DcsGet PMaintenance) by (rewrite Ec0; discriminate).
  destruct Hin as [<-|Hin]; [contradiction|].
  destruct (negb (match ev_resp e0 with RBool b => b | _ => false end)).
  { apply run_ret in H. destruct H as [-> _]. destruct Hin. }
  destruct (runs_bind_inv _ _ _ _ H) as [(t1 & t2 & u & R1 & R2 & ->)|(s & _ & K)]; [|discriminate K].
  pose proof (allcalls_sound _ _ (rr_update_hosts m) _ _ R1) as F1.
  destruct (negb (fst u)). { apply run_ret in R2. destruct R2 as [-> _]. rewrite app_nil_r in Hin.
    exfalso. rewrite Forall_forall in F1. specialize (F1 _ Hin). unfold ev_ok in F1. rewrite Ecm in F1.
    (* a maintenance read cannot be part of the registry refresh *)
    clear - R1 Hin Ecm. revert R1 Hin. unfold update_hosts_info, children_or_empty. intros R1 Hin.
    assert (NM : allcalls (fun _ c => c <> DcsGet PMaintenance) (update_hosts_info m)).
    { unfold update_hosts_info, children_or_empty. cbn [bind allcalls]. split; [discriminate|]. intros r.
      assert (CC : forall l, allcalls (fun _ c => c <> DcsGet PMaintenance) (cascade_configs l)).
      { induction l as [|h t IH]; [exact I|]. cbn [cascade_configs allcalls]. split; [discriminate|]. intros x. destruct x; try exact I. destruct v; try exact I. exact IH. }
      destruct r as [er| | | | | | | | | | | |l| |]; cbn [bind]; try exact I.
      - destruct er; cbn [bind]; try exact I. cbn [allcalls]. split; [discriminate|]. intros r2.
        destruct r2 as [er2| | | | | | | | | | | |l2| |]; cbn [bind]; try exact I.
        + destruct er2; cbn [bind]; try exact I.
        + apply allcalls_bind; [apply CC|]. intros [|]; exact I.
      - cbn [allcalls]. split; [discriminate|]. intros r2.
        destruct r2 as [er2| | | | | | | | | | | |l2| |]; cbn [bind]; try exact I.
        + destruct er2; cbn [bind]; try exact I.
        + apply allcalls_bind; [apply CC|]. intros [|]; exact I. }
    pose proof (allcalls_sound _ _ NM _ _ R1) as F. rewrite Forall_forall in F. exact (F _ Hin Ecm). }
  cbn [runs] in R2. destruct t2 as [|e1 t3]; [destruct R2|]. destruct R2 as (_ & Ec1 & R2).
  (* e1 is the maintenance read; em must be it *)
  assert (NM : Forall (fun e => ev_call e <> DcsGet PMaintenance) t1).
  { assert (A : allcalls (fun _ c => c <> DcsGet PMaintenance) (update_hosts_info m)).
    { unfold update_hosts_info, children_or_empty. cbn [bind allcalls]. split; [discriminate|]. intros r.
      assert (CC : forall l, allcalls (fun _ c => c <> DcsGet PMaintenance) (cascade_configs l)).
      { induction l as [|h t IH]; [exact I|]. cbn [cascade_configs allcalls]. split; [discriminate|]. intros x. destruct x; try exact I. destruct v; try exact I. exact IH. }
      destruct r as [er| | | | | | | | | | | |l| |]; cbn [bind]; try exact I.
      - destruct er; cbn [bind]; try exact I. cbn [allcalls]. split; [discriminate|]. intros r2.
        destruct r2 as [er2| | | | | | | | | | | |l2| |]; cbn [bind]; try exact I.
        + destruct er2; cbn [bind]; try exact I.
        + apply allcalls_bind; [apply CC|]. intros [|]; exact I.
      - cbn [allcalls]. split; [discriminate|]. intros r2.
        destruct r2 as [er2| | | | | | | | | | | |l2| |]; cbn [bind]; try exact I.
        + destruct er2; cbn [bind]; try exact I.
        + apply allcalls_bind; [apply CC|]. intros [|]; exact I. }
    exact (allcalls_sound _ _ A _ _ R1). }
  apply in_app_or in Hin. destruct Hin as [Hin|Hin]; [exfalso; rewrite Forall_forall in NM; exact (NM _ Hin Ecm)|].
  assert (LOCK : runs (l <- lock_acquire 792 ;; Ret (if l then NxManager else NxCandidate, snd u)) t3 (Done (n, m')) -> In em t3 -> False).
  { intros K Hi. unfold lock_acquire in K. cbn [bind runs] in K. destruct t3 as [|e2 t4]; [destruct Hi|]. destruct K as (_ & Ec2 & K).
    destruct Hi as [<-|Hi]; [rewrite Ecm in Ec2; discriminate|]. destruct (ev_resp e2); try destruct b; apply run_ret in K; destruct K as [-> _]; destruct Hi. }
  destruct Hin as [<-|Hin].
  - rewrite Erm in R2. rewrite Hp, Hl in R2. cbn [andb negb] in R2. apply run_ret in R2. destruct R2 as [-> K]. inversion K.
    split; [reflexivity|]. constructor; [rewrite Ec0; exact I|]. apply Forall_app. split; [exact F1|]. constructor; [rewrite Ecm; exact I|constructor].
  - exfalso. destruct (ev_resp e1) as [er| | | | | | | | | | |v| | |]; try (apply run_ret in R2; destruct R2 as [-> _]; destruct Hin).
    + destruct er; try (apply run_ret in R2; destruct R2 as [-> _]; destruct Hin). exact (LOCK R2 Hin).
    + destruct v; try (apply run_ret in R2; destruct R2 as [-> _]; destruct Hin).
      destruct (mt_paused m0 && negb (mt_light m0)); [apply run_ret in R2; destruct R2 as [-> _]; destruct Hin|exact (LOCK R2 Hin)].
Qed.

(* leaving re-learns the master from the servers: ensure_current_master records a master only when exactly
   one alive master exists, and it records that one; several alive masters are reported as such *)
Theorem ensure_current_master_spec cs tr r :
  runs (ensure_current_master cs) tr (Done r) ->
  match r with
  | MrOk mm => alive_masters cs = [mm] /\ exists e, tr = [e] /\ ev_call e = DcsSet PMaster (VHost mm) /\ ev_resp e = ROk
  | MrMany => 2 <= Z.of_nat (length (alive_masters cs)) /\ tr = []
  | MrNone => alive_masters cs = [] /\ tr = []
  | MrErr => exists mm, alive_masters cs = [mm] /\ exists e, tr = [e] /\ ev_call e = DcsSet PMaster (VHost mm) /\ ev_resp e <> ROk
  end.
Proof.
  unfold ensure_current_master. destruct (alive_masters cs) as [|a [|b rest]] eqn:Ea.
  - intros H. apply run_ret in H. destruct H as [-> <-]. auto.
  - unfold dcs_set_. cbn [bind runs]. destruct tr as [|e tr']; [intros []|]. intros (_ & Ec & H).
    destruct (ev_resp e) as [er| | | | | | | | | | | | | |] eqn:Er; cbn in H; destruct H as [-> K]; inversion K; subst r;
      try (exists a; split; [reflexivity|]; exists e; split; [reflexivity|]; split; [exact Ec|rewrite Er; discriminate]).
    split; [reflexivity|]. exists e. auto.
  - intros H. apply run_ret in H. destruct H as [-> <-]. split; [cbn [length]; lia|reflexivity].
Qed.

Definition has_ev (tr : trace) (P : event -> Prop) : Prop := exists e, In e tr /\ P e.
Lemma has_ev_app_l t1 t2 P : has_ev t1 P -> has_ev (t1 ++ t2) P.
Proof. intros (e & H & K). exists e. split; [apply in_or_app; left; exact H|exact K]. Qed.
Lemma has_ev_app_r t1 t2 P : has_ev t2 P -> has_ev (t1 ++ t2) P.
Proof. intros (e & H & K). exists e. split; [apply in_or_app; right; exact H|exact K]. Qed.

(* leaving maintenance succeeds only when exactly one alive master exists in the freshly read cluster state:
   that node is recorded as master, the active list read back is non-empty, and only then the record is removed *)
Theorem leave_maintenance_success cfg env m tr m' :
  runs (leave_maintenance cfg env m) tr (Done (None, m')) ->
  exists cs mm, alive_masters cs = [mm] /\
    has_ev tr (fun e => ev_call e = DcsSet PMaster (VHost mm) /\ ev_resp e = ROk) /\
    has_ev tr (fun e => ev_call e = DcsGet PActiveNodes /\ exists h l, ev_resp e = RVal (VHosts (h :: l))) /\
    has_ev tr (fun e => ev_call e = DcsDelete PMaintenance /\ ev_resp e = ROk).
Proof.
  unfold leave_maintenance. intros H.
  destruct (runs_bind_inv _ _ _ _ H) as [(t1 & t2 & [ok m1] & _ & R & ->)|(s & _ & K)]; [|discriminate K]. clear H.
  destruct (negb ok); [apply run_ret in R; destruct R as [_ K]; discriminate K|].
  destruct (runs_bind_inv _ _ _ _ R) as [(t3 & t4 & cs & _ & R2 & ->)|(s & _ & K)]; [|discriminate K]. clear R.
  destruct (runs_bind_inv _ _ _ _ R2) as [(t5 & t6 & mr & Rm & R3 & ->)|(s & _ & K)]; [|discriminate K]. clear R2.
  pose proof (ensure_current_master_spec _ _ _ Rm) as SP.
  destruct mr as [mm| | |].
  2:{ cbn [runs] in R3. destruct t6 as [|e t6']; [destruct R3|]. destruct R3 as (_ & _ & R3). apply run_ret in R3. destruct R3 as [_ K]. discriminate K. }
  2:{ apply run_ret in R3. destruct R3 as [_ K]. discriminate K. }
  2:{ apply run_ret in R3. destruct R3 as [_ K]. discriminate K. }
  destruct SP as [Ea (e & -> & Ec & Er)]. exists cs, mm. split; [exact Ea|].
  split. { apply has_ev_app_r, has_ev_app_r, has_ev_app_l. exists e. split; [left; reflexivity|auto]. }
  destruct (runs_bind_inv _ _ _ _ R3) as [(t7 & t8 & ocsd & _ & R4 & ->)|(s & _ & K)]; [|discriminate K]. clear R3.
  destruct ocsd as [csd|]; [|apply run_ret in R4; destruct R4 as [_ K]; discriminate K].
  cbn [tail_envs] in R4.
  destruct (runs_bind_inv _ _ _ _ R4) as [(t9 & t10 & rm & _ & R5 & ->)|(s & _ & K)]; [|discriminate K]. clear R4.
  destruct (runs_bind_inv _ _ _ _ R5) as [(t11 & t12 & cs2 & _ & R6 & ->)|(s & _ & K)]; [|discriminate K]. clear R5.
  destruct (runs_bind_inv _ _ _ _ R6) as [(t13 & t14 & ua & _ & R7 & ->)|(s & _ & K)]; [|discriminate K]. clear R6.
  destruct (fst ua); [|apply run_ret in R7; destruct R7 as [_ K]; discriminate K].
  cbn [runs] in R7. destruct t14 as [|ea t15]; [destruct R7|]. destruct R7 as (_ & Eca & R7).
  assert (BAD : forall c mmm, runs (Ret (Some c, mmm)) t15 (Done (None (A:=Z), m')) -> False) by (intros c mmm K; apply run_ret in K; destruct K as [_ K]; discriminate K).
  destruct (ev_resp ea) as [er| | | | | | | | | | |v| | |] eqn:Era; try (exfalso; eapply BAD; exact R7).
  { destruct er; exfalso; eapply BAD; exact R7. }
  destruct v; try (exfalso; eapply BAD; exact R7). destruct l as [|h0 l0]; [exfalso; eapply BAD; exact R7|].
  split.
  { do 7 apply has_ev_app_r. exists ea. split; [left; reflexivity|]. split; [exact Eca|]. exists h0, l0. exact Era. }
  destruct (runs_bind_inv _ _ _ _ R7) as [(t16 & t17 & ed & Rd & R8 & ->)|(s & _ & K)]; [|discriminate K].
  unfold dcs_delete_ in Rd. cbn [runs] in Rd. destruct t16 as [|edl t18]; [destruct Rd|]. destruct Rd as (_ & Ecd & Rd).
  do 7 apply has_ev_app_r. exists edl. split; [right; apply in_or_app; left; left; reflexivity|]. split; [exact Ecd|].
  destruct (ev_resp edl) as [er| | | | | | | | | | | | | |]; cbn in Rd; destruct Rd as [_ K]; inversion K; subst ed;
    try (apply run_ret in R8; destruct R8 as [_ K2]; discriminate K2). reflexivity.
Qed.

(* with several alive masters the mode is kept and the emergency marker is raised *)
Theorem leave_maintenance_many_masters cfg env m tr m1 :
  runs (leave_maintenance cfg env m) tr (Done (Some 90030, m1)) ->
  has_ev tr (fun e => ev_call e = FileWrite f_emerge) /\ ~ has_ev tr (fun e => ev_call e = DcsDelete PMaintenance).
Proof.
  unfold leave_maintenance. intros H.
  destruct (runs_bind_inv _ _ _ _ H) as [(t1 & t2 & [ok m2] & R0 & R & ->)|(s & _ & K)]; [|discriminate K]. clear H.
  assert (N1 : ~ has_ev t1 (fun e => ev_call e = DcsDelete PMaintenance)).
  { intros (e & Hin & Ec). pose proof (allcalls_sound _ _ (rr_update_hosts m) _ _ R0) as F. rewrite Forall_forall in F.
    specialize (F _ Hin). unfold ev_ok in F. rewrite Ec in F. exact F. }
  destruct (negb ok); [apply run_ret in R; destruct R as [_ K]; inversion K|].
  destruct (runs_bind_inv _ _ _ _ R) as [(t3 & t4 & cs & Rcs & R2 & ->)|(s & _ & K)]; [|discriminate K]. clear R.
  assert (N3 : ~ has_ev t3 (fun e => ev_call e = DcsDelete PMaintenance)).
  { intros (e & Hin & Ec).
    assert (A : allcalls (fun _ c => (fun c => match c with Now | Sql _ _ => true | _ => false end) c = true) (cluster_state_from_db 90026 (all_hosts m2))).
    { apply Proofs.SwitchoverProofs.c_cluster_state; try reflexivity; intros; reflexivity. }
    pose proof (allcalls_sound _ _ A _ _ Rcs) as F. rewrite Forall_forall in F. specialize (F _ Hin). unfold ev_ok in F. rewrite Ec in F. discriminate F. }
  destruct (runs_bind_inv _ _ _ _ R2) as [(t5 & t6 & mr & Rm & R3 & ->)|(s & _ & K)]; [|discriminate K]. clear R2.
  pose proof (ensure_current_master_spec _ _ _ Rm) as SP.
  destruct mr as [mm| | |].
  - (* one master: code 90030 cannot come out *)
    exfalso. destruct (runs_bind_inv _ _ _ _ R3) as [(t7 & t8 & ocsd & _ & R4 & _)|(s & _ & K)]; [|discriminate K].
    destruct ocsd as [csd|]; [|apply run_ret in R4; destruct R4 as [_ K]; inversion K].
    cbn [tail_envs] in R4.
    destruct (runs_bind_inv _ _ _ _ R4) as [(t9 & t10 & rm & _ & R5 & _)|(s & _ & K)]; [|discriminate K].
    destruct (runs_bind_inv _ _ _ _ R5) as [(t11 & t12 & cs2 & _ & R6 & _)|(s & _ & K)]; [|discriminate K].
    destruct (runs_bind_inv _ _ _ _ R6) as [(t13 & t14 & ua & _ & R7 & _)|(s & _ & K)]; [|discriminate K].
    destruct (fst ua); [|apply run_ret in R7; destruct R7 as [_ K]; inversion K].
    cbn [runs] in R7. destruct t14 as [|ea t15]; [destruct R7|]. destruct R7 as (_ & _ & R7).
    destruct (ev_resp ea) as [er| | | | | | | | | | |v| | |]; try (apply run_ret in R7; destruct R7 as [_ K]; inversion K).
    + destruct er; apply run_ret in R7; destruct R7 as [_ K]; inversion K.
    + destruct v; try (apply run_ret in R7; destruct R7 as [_ K]; inversion K). destruct l; [apply run_ret in R7; destruct R7 as [_ K]; inversion K|].
      destruct (runs_bind_inv _ _ _ _ R7) as [(t16 & t17 & ed & _ & R8 & _)|(s & _ & K)]; [|discriminate K].
      apply run_ret in R8. destruct R8 as [_ K]. destruct ed; inversion K.
  - destruct SP as [_ ->]. cbn [runs] in R3. destruct t6 as [|e t6']; [destruct R3|]. destruct R3 as (_ & Ec & R3).
    apply run_ret in R3. destruct R3 as [-> _]. split.
    + apply has_ev_app_r, has_ev_app_r. exists e. split; [left; reflexivity|exact Ec].
    + intros (x & Hin & Ex). apply in_app_or in Hin. destruct Hin as [Hin|Hin]; [apply N1; exists x; auto|].
      apply in_app_or in Hin. destruct Hin as [Hin|Hin]; [apply N3; exists x; auto|].
      cbn in Hin. destruct Hin as [<-|[]]. rewrite Ec in Ex. discriminate Ex.
  - apply run_ret in R3. destruct R3 as [_ K]. inversion K.
  - apply run_ret in R3. destruct R3 as [_ K]. inversion K.
Qed.

(* ================================================================ C03 (application half): only the lock holder acts *)
(* a manager iteration that is not told it holds the lock issues nothing after asking *)
Theorem no_lock_no_action cfg env m tr o :
  runs (manager_gates cfg env m) tr o ->
  match tr with
  | e0 :: e1 :: rest =>
      ev_call e0 = DcsConnected /\ ev_call e1 = LockAcquire /\
      (ev_resp e1 <> RBool true -> rest = [] /\ o = Done (GNext NxCandidate, m))
  | [e0] => ev_call e0 = DcsConnected /\ o = Done (GNext NxLost, m)
  | [] => False
  end.
Proof.
  unfold manager_gates. cbn [bind runs]. destruct tr as [|e0 tr0]; [intros []|]. intros (_ & Ec0 & H).
  destruct (match ev_resp e0 with RBool b => b | _ => false end) eqn:Eb; cbn [negb] in H.
  - unfold lock_acquire in H. cbn [bind runs] in H. destruct tr0 as [|e1 tr1]; [destruct H|]. destruct H as (_ & Ec1 & H).
    split; [exact Ec0|]. split; [exact Ec1|]. intros Hn.
    destruct (ev_resp e1) as [| |b| | | | | | | | | | | |]; try (cbn in H; destruct H as [-> ->]; auto).
    destruct b; [exfalso; apply Hn; reflexivity|]. cbn in H. destruct H as [-> ->]. auto.
  - destruct (ev_resp e0); cbn in H; destruct H as [-> ->]; auto.
Qed.

(* ================================================================ C20: no crash *)
Lemma np_start_timing_at n t : nopanic (start_timing_at n t).
Proof. unfold start_timing_at, start_timing_now, now_, dcs_set_. pnp. Qed.
Lemma np_approve cfg cs msd active m master : nopanic (approve_failover cfg cs msd active m master).
Proof. unfold approve_failover, approve_pre, approve_tail, now_. pnp. Qed.
Lemma np_issue master : nopanic (issue_failover master).
Proof. unfold issue_failover, now_. pnp. Qed.
Lemma np_failure_detection cfg cs msd active m master light : nopanic (failure_detection cfg cs msd active m master light).
Proof.
  unfold failure_detection. destruct (negb (ns_ping_ok msd) || ns_fs_ro msd).
  - apply nopanic_bind.
    + destruct (failed_at m master =? 0); [|exact I]. unfold now_. cbn [bind nopanic]. intros r.
      apply nopanic_bind; [apply np_start_timing_at|]. intros _. apply nopanic_bind; [apply np_start_timing_at|]. intros; exact I.
    + intros m1. destruct light; [exact I|]. apply nopanic_bind; [apply np_approve|]. intros ap.
      apply nopanic_bind; [destruct ap; [apply nopanic_bind; [apply np_issue|intros; exact I]|exact I]|]. intros; exact I.
  - destruct (negb (failed_at m master =? 0)); [|exact I].
    apply nopanic_bind; [apply np_stop_timing|]. intros _. apply nopanic_bind; [apply np_stop_timing|]. intros; exact I.
Qed.

(* with the recorded master present in both views (what the repaired stateManager guarantees before it gets
   here) failure detection and the suspicious-master guard cannot crash *)
Theorem after_requests_nopanic cfg cs csd active m master light msd ms :
  assoc master csd = Some msd -> assoc master cs = Some ms -> nopanic (after_requests cfg cs csd active m master light).
Proof.
  intros Hd Hs. unfold after_requests. rewrite Hd. apply nopanic_bind; [apply np_failure_detection|].
  intros [b mm]. cbn [fst snd]. destruct b; [exact I|]. rewrite Hs. destruct (negb (ns_ping_ok ms)); exact I.
Qed.

Lemma np_update_hosts m : nopanic (update_hosts_info m).
Proof.
  unfold update_hosts_info, children_or_empty. cbn [bind nopanic]. intros r.
  assert (CC : forall l, nopanic (cascade_configs l)).
  { induction l as [|h t IH]; [exact I|]. cbn [cascade_configs nopanic]. intros x. destruct x; try exact I. destruct v; try exact I. exact IH. }
  destruct r as [er| | | | | | | | | | | |l| |]; cbn [bind]; try exact I.
  - destruct er; cbn [bind]; try exact I. cbn [nopanic]. intros r2.
    destruct r2 as [er2| | | | | | | | | | | |l2| |]; cbn [bind]; try exact I.
    + destruct er2; cbn [bind]; try exact I.
    + apply nopanic_bind; [apply CC|]. intros [|]; exact I.
  - cbn [nopanic]. intros r2.
    destruct r2 as [er2| | | | | | | | | | | |l2| |]; cbn [bind]; try exact I.
    + destruct er2; cbn [bind]; try exact I.
    + apply nopanic_bind; [apply CC|]. intros [|]; exact I.
Qed.

Theorem state_candidate_nopanic m : nopanic (state_candidate m).
Proof.
  unfold state_candidate, lock_acquire. cbn [bind nopanic]. intros r. destruct (negb _); [exact I|].
  apply nopanic_bind; [apply np_update_hosts|]. intros u. destruct (negb (fst u)); [exact I|]. pnp.
Qed.

(* switching optimisation off before a switchover (after the repair 923b14a: unregistered members of the
   active list are skipped) cannot crash once the old master is a registered host - which the repaired
   stateManager (d1e5675) establishes - whatever the active list and the optimisation registry name *)
Theorem disable_all_nopanic master nodes : nopanic (opt_disable_all_k true master nodes).
Proof.
  unfold opt_disable_all_k, opt_disable_all, dcs_children_, repl_settings. cbn [bind nopanic]. intros r.
  assert (G : forall names rs, nopanic
    (errs <- forM names (fun h => if mem_host h nodes then opt_disable h rs else Ret None) ;;
     Ret (if existsb (fun e : oerr => match e with Some _ => true | None => false end) errs then Some EOther else None))).
  { intros names rs. apply nopanic_bind; [|intros; exact I]. apply nopanic_forM. intros h _.
    destruct (mem_host h nodes); [|exact I]. unfold opt_disable, set_repl_settings, opt_delete_host, exec_. pnp. }
  destruct r as [er| | | | | | | | | | | |l| |]; cbn [bind snd fst nopanic]; intros r2;
    destruct r2; cbn [bind snd fst]; apply G.
Qed.

(* enabling semi-sync on the joining replicas (after the repair becaa66) cannot crash, whatever the
   cluster view contains: a host without replica state or a recorded master without master state
   fails to join *)
Theorem enable_loop_nopanic env ms l : forall w active, nopanic (enable_loop env ms l w active).
Proof.
  induction l as [|h r IH]; intros w active; cbn [enable_loop]; [exact I|].
  apply nopanic_bind.
  - unfold enable_semi_sync_on_slave, restart_replica, restart_io, exec_. pnp.
  - intros [e|]; [apply IH|]. apply nopanic_bind; [unfold set_default_repl_settings, repl_settings, exec_; pnp|]. intros _. apply IH.
Qed.

(* what still crashes (known finding C20-P1): re-pointing a server at itself *)
Theorem change_master_to_itself_panics cfg h : runs (perform_change_master cfg h h) [] (Panicked 2079).
Proof. unfold perform_change_master. rewrite N.eqb_refl. cbn. auto. Qed.
