From Coq Require Import ZArith NArith Bool List Lia.
From Mysync Require Import Gtid.Interval Gtid.GtidSet Base.Prog Base.ProgFacts Base.Config
  Procs.NodeOps Procs.ActiveNodes Procs.Switchover Procs.Manager Procs.Recovery Proofs.ManagerProofs.
Import ListNotations.
Open Scope Z_scope.

(* ---- what the recovery check may issue at all --------------------------------------- *)
Definition rec_call_ok (me : host) (c : call) : Prop :=
  match c with
  | DcsGet _ | DcsChildren _ | FileExists _ | Now => True
  | Sql _ st => stmt_reads st = true
  | FileWrite f => f = f_resetup
  | DcsDelete p => p = PRecovery me
  | _ => False
  end.

Lemma update_hosts_calls (P : site -> call -> Prop) m :
  (forall s, P s (DcsChildren PHaNodes)) -> (forall s, P s (DcsChildren PCascadeNodes)) -> (forall s h, P s (DcsGet (PCascadeNode h))) ->
  allcalls P (update_hosts_info m).
Proof.
  intros H1 H2 H3. unfold update_hosts_info, children_or_empty. cbn [bind allcalls]. split; [apply H1|]. intros r.
  assert (CC : forall l, allcalls P (cascade_configs l)).
  { induction l as [|h t IH]; [exact I|]. cbn [cascade_configs allcalls]. split; [apply H3|]. intros x. destruct x; try exact I. destruct v; try exact I. exact IH. }
  destruct r as [er| | | | | | | | | | | |l| |]; cbn [bind]; try exact I.
  - destruct er; cbn [bind]; try exact I. cbn [allcalls]. split; [apply H2|]. intros r2.
    destruct r2 as [er2| | | | | | | | | | | |l2| |]; cbn [bind]; try exact I.
    + destruct er2; cbn [bind]; try exact I.
    + apply allcalls_bind; [apply CC|]. intros [|]; exact I.
  - cbn [allcalls]. split; [apply H2|]. intros r2.
    destruct r2 as [er2| | | | | | | | | | | |l2| |]; cbn [bind]; try exact I.
    + destruct er2; cbn [bind]; try exact I.
    + apply allcalls_bind; [apply CC|]. intros [|]; exact I.
Qed.

Lemma rc_update_hosts me m : allcalls (fun _ c => rec_call_ok me c) (update_hosts_info m).
Proof. apply update_hosts_calls; intros; exact I. Qed.

Lemma rc_stuck me m clk0 : allcalls (fun _ c => rec_call_ok me c) (rec_stuck m clk0).
Proof. unfold rec_stuck, now_. pac0; try exact I; reflexivity. Qed.

Lemma rc_final me m master st mg stuck clk0 : allcalls (fun _ c => rec_call_ok me c) (rec_final me m master st mg stuck clk0).
Proof.
  unfold rec_final. destruct st as [rs|].
  - destruct (stuck && negb (N.eqb master me)); [apply rc_stuck|]. destruct (permanently_lost rs mg).
    + unfold replica_status. pac0; try exact I; reflexivity.
    + unfold is_read_only, dcs_delete_. pac0; try exact I; reflexivity.
  - destruct (negb stuck); [exact I|]. destruct (negb (N.eqb master me)); [apply rc_stuck|exact I].
Qed.

Lemma rc_with_master me m clk st master : allcalls (fun _ c => rec_call_ok me c) (rec_with_master me m clk st master).
Proof.
  unfold rec_with_master. apply allcalls_bind; [apply rc_update_hosts|]. intros u. cbn zeta.
  destruct (negb (fst u)); [exact I|]. destruct (negb (mem_host _ _)); [exact I|].
  apply allcalls_bind; [unfold gtid_executed; pac0; try exact I; reflexivity|]. intros g. destruct (snd g); [exact I|].
  apply allcalls_bind; [unfold is_waiting_ack; pac0; try exact I; reflexivity|]. intros w. cbn zeta.
  destruct (snd w); [exact I|].
  apply allcalls_bind; [destruct (fst w); [unfold now_; pac0; exact I|exact I]|].
  intros clk0. apply rc_final.
Qed.

(* the recovery check only reads, may write the resetup marker file, and may delete ONE coordination key:
   its own host's recovery mark *)
Theorem check_recovery_calls me m clk : allcalls (fun _ c => rec_call_ok me c) (check_recovery me m clk).
Proof.
  unfold check_recovery. cbn [allcalls]. split; [exact I|]. intros r. destruct r; try exact I.
  apply allcalls_bind; [cbn [allcalls]; split; [exact I|intros; exact I]|]. intros fe. destruct fe; [exact I|].
  apply allcalls_bind; [unfold replica_status; pac0; try exact I; reflexivity|]. intros st. destruct (snd st); [exact I|].
  cbn [allcalls]. split; [exact I|]. intros rm. destruct rm as [| | | | | | | | | | |vv| | |]; try exact I. destruct vv; try exact I. apply rc_with_master.
Qed.

(* ---- the mark is cleared only when the host proved clean -------------------------------- *)
Definition is_clear (me : host) (e : event) : Prop := ev_call e = DcsDelete (PRecovery me).

Lemma no_clear_of_calls {A} (p : prog A) me tr o :
  allcalls (fun _ c => rec_call_ok me c /\ c <> DcsDelete (PRecovery me)) p -> runs p tr o -> ~ has_ev tr (is_clear me).
Proof.
  intros A1 R (e & Hin & Hc). pose proof (allcalls_sound _ _ A1 _ _ R) as F. rewrite Forall_forall in F.
  destruct (F _ Hin) as [_ K]. exact (K Hc).
Qed.

Lemma stuck_no_clear me m clk0 tr o : runs (rec_stuck m clk0) tr o -> ~ has_ev tr (is_clear me).
Proof.
  apply no_clear_of_calls. unfold rec_stuck, now_. pac0; try (split; [exact I|discriminate]); try exact I.
  split; [reflexivity|discriminate].
Qed.

Lemma rec_final_clears me m master st mg stuck clk0 tr o :
  runs (rec_final me m master st mg stuck clk0) tr o -> has_ev tr (is_clear me) ->
  exists rs, st = Some rs /\ permanently_lost rs mg = false /\ (stuck = false \/ master = me) /\
    has_ev tr (fun e => ev_call e = Sql me SIsReadOnly /\ exists s, ev_resp e = RFlags true s).
Proof.
  unfold rec_final. intros R Hc. destruct st as [rs|].
  2:{ exfalso. destruct (negb stuck); [cbn in R; destruct R as [-> _]; destruct Hc as (e & [] & _)|].
      destruct (negb (N.eqb master me)); [exact (stuck_no_clear _ _ _ _ _ R Hc)|cbn in R; destruct R as [-> _]; destruct Hc as (e & [] & _)]. }
  exists rs. split; [reflexivity|].
  destruct (stuck && negb (N.eqb master me)) eqn:Es; [exfalso; exact (stuck_no_clear _ _ _ _ _ R Hc)|].
  destruct (permanently_lost rs mg) eqn:El.
  { exfalso. revert R Hc. apply no_clear_of_calls. unfold replica_status. pac0; try (split; [exact I|discriminate]); try (split; [reflexivity|discriminate]); exact I. }
  split; [reflexivity|]. split.
  { apply andb_false_iff in Es. destruct Es as [Es|Es]; [left; exact Es|right]. apply negb_false_iff in Es. apply N.eqb_eq in Es. exact Es. }
  unfold is_read_only in R. cbn [bind runs] in R. destruct tr as [|e tr']; [destruct Hc as (x & [] & _)|]. destruct R as (_ & Ec & R).
  exists e. split; [left; reflexivity|]. split; [exact Ec|].
  destruct Hc as (x & [<-|Hin] & Hx); [unfold is_clear in Hx; rewrite Ec in Hx; discriminate Hx|].
  destruct (ev_resp e) as [er| | |a b| | | | | | | | | | |]; cbn [bind] in R;
    try (exfalso; cbn in R; destruct R as [-> _]; destruct Hin).
  destruct a; cbn [negb] in R; [exists b; reflexivity|]. exfalso. cbn in R. destruct R as [-> _]. destruct Hin.
Qed.

Lemma has_ev_cons e tr P : has_ev tr P -> has_ev (e :: tr) P.
Proof. intros (x & H & K). exists x. split; [right; exact H|exact K]. Qed.

Lemma reads_no_clear {A} (p : prog A) me tr o :
  allcalls (fun _ c => match c with DcsDelete _ => False | _ => True end) p -> runs p tr o -> ~ has_ev tr (is_clear me).
Proof.
  intros A1 R (e & Hin & Hc). pose proof (allcalls_sound _ _ A1 _ _ R) as F. rewrite Forall_forall in F.
  specialize (F _ Hin). unfold ev_ok in F. unfold is_clear in Hc. rewrite Hc in F. exact F.
Qed.

Lemma rec_with_master_clears me m clk st master tr o :
  runs (rec_with_master me m clk st master) tr o -> has_ev tr (is_clear me) ->
  exists rs mg, st = Some rs /\ permanently_lost rs mg = false /\
    has_ev tr (fun e => ev_call e = Sql master SGtidExecuted /\ ev_resp e = RGtid mg) /\
    has_ev tr (fun e => ev_call e = Sql me SIsReadOnly /\ exists s, ev_resp e = RFlags true s) /\
    (master = me \/ has_ev tr (fun e => ev_call e = Sql me SWaitingAck /\ ev_resp e = RBool false)).
Proof.
  unfold rec_with_master. intros R Hc.
  destruct (runs_bind_inv _ _ _ _ R) as [(t1 & t2 & u & R1 & R2 & ->)|(s & R1 & ->)].
  2:{ exfalso. revert R1 Hc. apply reads_no_clear. apply update_hosts_calls; intros; exact I. }
  assert (N1 : ~ has_ev t1 (is_clear me)) by (revert R1; apply reads_no_clear; apply update_hosts_calls; intros; exact I).
  assert (Hc2 : has_ev t2 (is_clear me)).
  { destruct Hc as (x & Hin & Hx). apply in_app_or in Hin. destruct Hin as [Hin|Hin]; [exfalso; apply N1; exists x; auto|exists x; auto]. }
  cbn zeta in R2. destruct (negb (fst u)); [cbn in R2; destruct R2 as [-> _]; destruct Hc2 as (x & [] & _)|].
  destruct (negb (mem_host master _)); [cbn in R2; destruct R2 as [-> _]; destruct Hc2 as (x & [] & _)|].
  unfold gtid_executed in R2. cbn [bind runs] in R2. destruct t2 as [|eg t3]; [destruct Hc2 as (x & [] & _)|]. destruct R2 as (_ & Ecg & R2).
  assert (Hc3 : has_ev t3 (is_clear me)).
  { destruct Hc2 as (x & [<-|Hin] & Hx); [unfold is_clear in Hx; rewrite Ecg in Hx; discriminate Hx|exists x; auto]. }
  destruct (ev_resp eg) as [er| | | | | |mg| | | | | | | |] eqn:Erg; cbn [bind snd fst] in R2;
    try (exfalso; cbn in R2; destruct R2 as [-> _]; destruct Hc3 as (x & [] & _)).
  unfold is_waiting_ack in R2. cbn [bind runs] in R2. destruct t3 as [|ew t4]; [destruct Hc3 as (x & [] & _)|]. destruct R2 as (_ & Ecw & R2).
  assert (Hc4 : has_ev t4 (is_clear me)).
  { destruct Hc3 as (x & [<-|Hin] & Hx); [unfold is_clear in Hx; rewrite Ecw in Hx; discriminate Hx|exists x; auto]. }
  (* the rest: clock then the final decision, for the answer the stuck query got *)
  assert (FIN : forall b : bool,
     runs (clk0 <- (if b then t <- now_ 73 ;; Ret (if clk =? 0 then t else clk) else Ret 0) ;;
           rec_final me (snd u) master st mg b clk0) t4 o ->
     exists rs, st = Some rs /\ permanently_lost rs mg = false /\
       has_ev t4 (fun e => ev_call e = Sql me SIsReadOnly /\ exists s, ev_resp e = RFlags true s) /\
       (b = false \/ master = me)).
  { intros b Rw.
    destruct (runs_bind_inv _ _ _ _ Rw) as [(a1 & a2 & clk0 & Ra & Rb & ->)|(s & Ra & ->)].
    - assert (Na : ~ has_ev a1 (is_clear me)).
      { revert Ra. apply reads_no_clear. destruct b; [unfold now_; pac0; exact I|exact I]. }
      assert (Hb : has_ev a2 (is_clear me)).
      { destruct Hc4 as (x & Hin & Hx). apply in_app_or in Hin. destruct Hin as [Hin|Hin]; [exfalso; apply Na; exists x; auto|exists x; auto]. }
      destruct (rec_final_clears _ _ _ _ _ _ _ _ _ Rb Hb) as (rs & E1 & E2 & E3 & E4).
      exists rs. split; [exact E1|]. split; [exact E2|]. split; [apply has_ev_app_r; exact E4|exact E3].
    - exfalso. revert Ra Hc4. apply reads_no_clear. destruct b; [unfold now_; pac0; exact I|exact I]. }
  assert (LIFT : forall P, has_ev t4 P -> has_ev (t1 ++ eg :: ew :: t4) P).
  { intros P H. apply has_ev_app_r. apply has_ev_cons, has_ev_cons. exact H. }
  assert (GT : has_ev (t1 ++ eg :: ew :: t4) (fun e => ev_call e = Sql master SGtidExecuted /\ ev_resp e = RGtid mg)).
  { apply has_ev_app_r. exists eg. split; [left; reflexivity|auto]. }
  destruct (ev_resp ew) as [er| |b| | | | | | | | | | | |] eqn:Erw; cbn [bind snd fst] in R2;
    try (exfalso; cbn in R2; destruct R2 as [-> _]; destruct Hc4 as (x & [] & _)).
  destruct (FIN b R2) as (rs & E1 & E2 & E4 & E3). exists rs, mg. split; [exact E1|]. split; [exact E2|]. split; [exact GT|]. split; [apply LIFT; exact E4|].
    destruct E3 as [E3|E3]; [|left; exact E3]. right. apply has_ev_app_r, has_ev_cons. exists ew. split; [left; reflexivity|]. split; [exact Ecw|].
    rewrite Erw, E3. reflexivity.
Qed.

(* C11: the mark is cleared only after, in the same check: the resetup marker was absent, the host
   answered with a replica status rs, the recorded master answered with its transactions mg, rs is not in
   error and holds nothing mg lacks, the host reported read_only, and (unless it is itself the recorded
   master) it reported no commits stuck on a semi-sync acknowledgement *)
Theorem mark_cleared_only_when_clean me m clk tr o :
  runs (check_recovery me m clk) tr o -> has_ev tr (is_clear me) ->
  exists rs mg master,
    has_ev tr (fun e => ev_call e = FileExists f_resetup /\ ev_resp e <> RBool true) /\
    has_ev tr (fun e => ev_call e = Sql me SShowReplica /\ ev_resp e = RRepl (Some rs)) /\
    has_ev tr (fun e => ev_call e = DcsGet PMaster /\ ev_resp e = RVal (VHost master)) /\
    has_ev tr (fun e => ev_call e = Sql master SGtidExecuted /\ ev_resp e = RGtid mg) /\
    permanently_lost rs mg = false /\
    has_ev tr (fun e => ev_call e = Sql me SIsReadOnly /\ exists s, ev_resp e = RFlags true s) /\
    (master = me \/ has_ev tr (fun e => ev_call e = Sql me SWaitingAck /\ ev_resp e = RBool false)).
Proof.
  unfold check_recovery. intros R Hc. cbn [runs] in R. destruct tr as [|e0 t0]; [destruct Hc as (x & [] & _)|]. destruct R as (_ & Ec0 & R).
  assert (H0 : has_ev t0 (is_clear me)).
  { destruct Hc as (x & [<-|Hin] & Hx); [unfold is_clear in Hx; rewrite Ec0 in Hx; discriminate Hx|exists x; auto]. }
  destruct (ev_resp e0) as [| | | | | | | | | | |v0| | |]; try (exfalso; cbn in R; destruct R as [-> _]; destruct H0 as (x & [] & _)).
  cbn [bind runs] in R. destruct t0 as [|e1 t1]; [destruct H0 as (x & [] & _)|]. destruct R as (_ & Ec1 & R).
  assert (H1 : has_ev t1 (is_clear me)).
  { destruct H0 as (x & [<-|Hin] & Hx); [unfold is_clear in Hx; rewrite Ec1 in Hx; discriminate Hx|exists x; auto]. }
  assert (FE : ev_resp e1 <> RBool true).
  { intros E. rewrite E in R. cbn in R. destruct R as [-> _]. destruct H1 as (x & [] & _). }
  assert (R' : runs (st <- replica_status 42 me ;;
                     match snd st with
                     | Some _ => Ret (clk, m)
                     | None => Do 49 (DcsGet PMaster) (fun rmst => match rmst with RVal (VHost master) => rec_with_master me m clk (fst st) master | _ => Ret (clk, m) end)
                     end) t1 o).
  { destruct (ev_resp e1) as [| |b| | | | | | | | | | | |]; try exact R. destruct b; [exfalso; apply FE; reflexivity|exact R]. }
  clear R. unfold replica_status in R'. cbn [bind runs] in R'. destruct t1 as [|e2 t2]; [destruct H1 as (x & [] & _)|]. destruct R' as (_ & Ec2 & R).
  assert (H2 : has_ev t2 (is_clear me)).
  { destruct H1 as (x & [<-|Hin] & Hx); [unfold is_clear in Hx; rewrite Ec2 in Hx; discriminate Hx|exists x; auto]. }
  destruct (ev_resp e2) as [er| | | | |ors| | | | | | | | |] eqn:Er2; cbn [bind snd fst] in R;
    try (exfalso; cbn in R; destruct R as [-> _]; destruct H2 as (x & [] & _)).
  cbn [runs] in R. destruct t2 as [|e3 t3]; [destruct H2 as (x & [] & _)|]. destruct R as (_ & Ec3 & R).
  assert (H3 : has_ev t3 (is_clear me)).
  { destruct H2 as (x & [<-|Hin] & Hx); [unfold is_clear in Hx; rewrite Ec3 in Hx; discriminate Hx|exists x; auto]. }
  destruct (ev_resp e3) as [| | | | | | | | | | |v3| | |] eqn:Er3; try (exfalso; cbn in R; destruct R as [-> _]; destruct H3 as (x & [] & _)).
  destruct v3 as [master| | | | | | | | | | | |]; try (exfalso; cbn in R; destruct R as [-> _]; destruct H3 as (x & [] & _)).
  destruct (rec_with_master_clears _ _ _ _ _ _ _ R H3) as (rs & mg & Est & El & G1 & G2 & G3). subst ors.
  exists rs, mg, master.
  assert (LIFT : forall P, has_ev t3 P -> has_ev (e0 :: e1 :: e2 :: e3 :: t3) P) by (intros P H; do 4 apply has_ev_cons; exact H).
  split; [apply has_ev_cons; exists e1; split; [left; reflexivity|auto]|].
  split; [do 2 apply has_ev_cons; exists e2; split; [left; reflexivity|auto]|].
  split; [do 3 apply has_ev_cons; exists e3; split; [left; reflexivity|auto]|].
  split; [apply LIFT; exact G1|]. split; [exact El|]. split; [apply LIFT; exact G2|].
  destruct G3 as [G3|G3]; [left; exact G3|right; apply LIFT; exact G3].
Qed.

(* what "clean" means for the transaction sets: not in error and behind-or-equal the master *)
Theorem not_lost_means_contained rs mg : permanently_lost rs mg = false ->
  repl_state_of rs <> ReplError /\ behind_or_equal (rs_executed rs) mg = true.
Proof.
  unfold permanently_lost, slave_ahead. destruct (repl_state_of rs); intros H; try discriminate;
    (split; [discriminate|apply negb_false_iff in H; exact H]).
Qed.

(* exclusion from the published list: a marked host that is not the recorded master is never a member *)
Theorem marked_host_is_not_active cfg env recovery mgtid mem h ns :
  h <> ae_master env -> mem_host h recovery = true ->
  calc_active_host cfg env (Some recovery) mgtid mem (h, ns) = Ret (false, mem).
Proof.
  intros Hm Hr. unfold calc_active_host. destruct (N.eqb_spec h (ae_master env)); [contradiction|].
  destruct (ns_is_cascade ns); [reflexivity|]. rewrite Hr. reflexivity.
Qed.

(* C20: the repaired recovery check cannot crash, whatever the coordination service and the servers answer *)
Theorem check_recovery_nopanic me m clk : nopanic (check_recovery me m clk).
Proof.
  unfold check_recovery. cbn [nopanic]. intros r. destruct r; try exact I.
  apply nopanic_bind; [cbn [nopanic]; intros; exact I|]. intros fe. destruct fe; [exact I|].
  apply nopanic_bind; [unfold replica_status; pnp|]. intros st. destruct (snd st); [exact I|].
  cbn [nopanic]. intros rm. destruct rm as [| | | | | | | | | | |vv| | |]; try exact I. destruct vv; try exact I.
  unfold rec_with_master. apply nopanic_bind; [apply np_update_hosts|]. intros u. cbn zeta.
  destruct (negb (fst u)); [exact I|]. destruct (negb (mem_host _ _)); [exact I|].
  apply nopanic_bind; [unfold gtid_executed; pnp|]. intros g. destruct (snd g); [exact I|].
  apply nopanic_bind; [unfold is_waiting_ack; pnp|]. intros w. cbn zeta.
  destruct (snd w); [exact I|].
  apply nopanic_bind; [destruct (fst w); [unfold now_; pnp|exact I]|].
  intros clk0. unfold rec_final, rec_stuck, now_, replica_status, is_read_only, dcs_delete_. pnp.
Qed.
