(* findMostRecentNodeAndDetectSplitbrain does not depend on the order in which the positions are offered (the caller
   ranges over a Go map, so the order is arbitrary): the split-brain verdict is the same for every permutation, and
   when a node is returned, the set returned for one order holds exactly the transactions of the set returned for
   any other order. *)
From Coq Require Import ZArith NArith Bool List Permutation.
From Mysync Require Import Gtid.Interval Gtid.GtidSet Proofs.GtidProofs.
Import ListNotations.

Lemma all_wf_perm ps qs : Permutation ps qs -> all_wf ps -> all_wf qs.
Proof. intros P H p Hp. apply H. eapply Permutation_in; [apply Permutation_sym; exact P|exact Hp]. Qed.

Lemma contains_all_perm ps qs p : Permutation ps qs -> contains_all ps p -> contains_all qs p.
Proof. intros P H n Hn. apply H. eapply Permutation_in; [apply Permutation_sym; exact P|exact Hn]. Qed.

Lemma perm_nonnil (ps qs : list position) : Permutation ps qs -> ps <> [] -> qs <> [].
Proof. intros P H E. subst qs. apply Permutation_sym, Permutation_nil in P. contradiction. Qed.

Theorem most_recent_splitbrain_order_independent ps qs : Permutation ps qs -> all_wf ps ->
  (most_recent ps = RecentSplitBrain <-> most_recent qs = RecentSplitBrain).
Proof.
  intros P W. destruct ps as [|p0 r].
  - apply Permutation_nil in P. subst qs. tauto.
  - assert (N1 : p0 :: r <> []) by discriminate.
    pose proof (perm_nonnil _ _ P N1) as N2. pose proof (all_wf_perm _ _ P W) as W2.
    rewrite (most_recent_splitbrain_iff _ W N1), (most_recent_splitbrain_iff _ W2 N2).
    split; intros H [p [Hin Hc]]; apply H; exists p; split.
    + eapply Permutation_in; [apply Permutation_sym; exact P|exact Hin].
    + eapply contains_all_perm; [apply Permutation_sym; exact P|exact Hc].
    + eapply Permutation_in; [exact P|exact Hin].
    + eapply contains_all_perm; [exact P|exact Hc].
Qed.

Theorem most_recent_found_order_independent ps qs h st h' st' : Permutation ps qs -> all_wf ps ->
  most_recent ps = RecentFound h st -> most_recent qs = RecentFound h' st' -> same st st'.
Proof.
  intros P W E1 E2. pose proof (all_wf_perm _ _ P W) as W2.
  destruct (most_recent_found _ _ _ W E1) as [p [Hp [_ [Sp Cp]]]].
  destruct (most_recent_found _ _ _ W2 E2) as [q [Hq [_ [Sq Cq]]]].
  subst st st'.
  assert (A : subset (p_set q) (p_set p)).
  { apply Cp. eapply Permutation_in; [apply Permutation_sym; exact P|exact Hq]. }
  assert (B : subset (p_set p) (p_set q)).
  { apply Cq. eapply Permutation_in; [exact P|exact Hp]. }
  intros u t g. destruct (gmem (p_set p) u t g) eqn:G1, (gmem (p_set q) u t g) eqn:G2; try reflexivity.
  - apply B in G1. congruence.
  - apply A in G2. congruence.
Qed.
