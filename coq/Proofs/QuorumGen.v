From Coq Require Import ZArith Bool List Lia.
From Mysync Require Import Pure.Quorum Generated.SwitchHelperGen.
Open Scope Z_scope.
Ltac Zify.zify_post_hook ::= Z.to_euclidean_division_equations.

Lemma gen_required_eq sh n : SwitchHelperGen.required_wsc sh n = Quorum.required_wsc (sh_w sh) n.
Proof. reflexivity. Qed.
Lemma gen_quorum_eq sh n : SwitchHelperGen.failover_quorum sh n = Quorum.failover_quorum (sh_w sh) n.
Proof. reflexivity. Qed.
Lemma gen_check_eq sh n p :
  SwitchHelperGen.check_quorum sh n p = Quorum.check_quorum (sh_semisync sh) (sh_w sh) n p.
Proof.
  unfold SwitchHelperGen.check_quorum, Quorum.check_quorum.
  rewrite gen_quorum_eq. destruct (sh_semisync sh); [destruct (_ <? _)|destruct (_ =? _)]; reflexivity.
Qed.
