From Coq Require Import ZArith NArith Bool List Lia.
From Mysync Require Import Gtid.Interval Gtid.GtidSet Pure.Quorum Pure.Desirable Base.Prog Base.ProgFacts Base.Config
  Procs.NodeOps Procs.ActiveNodes Procs.Switchover Proofs.NodeOpsProofs Proofs.ActiveNodesProofs.
Import ListNotations.
Open Scope Z_scope.

(* ---- generic structural descent for allcalls goals whose predicate is a
   boolean function of the call (leaves close by computation) ----------------- *)
Ltac pac := repeat first
  [ exact I
  | reflexivity
  | match goal with
    | |- allcalls _ (bind _ _) => apply allcalls_bind; [|intros ?]
    | |- allcalls _ (exec_ _ _ _) => apply ac_exec
    | |- allcalls _ (ping _ _) => apply ac_ping
    | |- allcalls _ (is_read_only _ _) => apply ac_is_read_only
    | |- allcalls _ (is_offline _ _) => apply ac_is_offline
    | |- allcalls _ (replica_status _ _) => apply ac_replica_status
    | |- allcalls _ (gtid_executed _ _) => apply ac_gtid_executed
    | |- allcalls _ (semi_sync_status _ _) => apply ac_semi_sync_status
    | |- allcalls _ (repl_settings _ _) => apply ac_repl_settings
    | |- allcalls _ (match ?x with _ => _ end) => destruct x
    | |- allcalls _ (if ?x then _ else _) => destruct x
    | |- allcalls _ (let '(_, _) := ?x in _) => destruct x
    | |- allcalls _ (Do _ _ _) => cbn [allcalls]; split; [|intros ?]
    | |- allcalls _ (Ret _) => exact I
    | |- allcalls _ (Panic _) => exact I
    end ].

Section Calm.
(* P is a boolean classifier of calls; a sub-program is "P-clean" if all its calls satisfy it *)
Variable P : call -> bool.
Notation PP := (fun (_ : site) (c : call) => P c = true).

Hypothesis Pnow : P Now = true.
Hypothesis Psleep : forall d, P (Sleep d) = true.
Hypothesis Ppeek : forall c, P (Peek c) = true.
Hypothesis Pread : forall h st, stmt_reads st = true -> P (Sql h st) = true.
Hypothesis Pdcsget : forall p, P (DcsGet p) = true.
Hypothesis Pchildren : forall p, P (DcsChildren p) = true.

Lemma c_now s : allcalls PP (now_ s). Proof. unfold now_. split; [exact Pnow|intros; exact I]. Qed.

Lemma c_gns h casc : allcalls PP (get_node_state h casc).
Proof. apply ac_get_node_state. unfold gns_calls_ok. repeat split; try exact Pnow; apply Pread; reflexivity. Qed.

Lemma c_cluster_state s hosts : allcalls PP (cluster_state_from_db s hosts).
Proof.
  unfold cluster_state_from_db. cbn [allcalls]. split; [|intros; exact I].
  induction hosts as [|[h c] r IH]; [exact I|]. cbn [map]. split; [|exact IH].
  apply allcalls_bind; [apply c_gns|]. intros; exact I.
Qed.

Lemma c_position_of h : allcalls PP (position_of h).
Proof.
  unfold position_of, get_priority.
  apply allcalls_bind; [apply ac_replica_status; apply Pread; reflexivity|]. intros [st e]. cbn [fst snd].
  destruct e; [exact I|].
  apply allcalls_bind.
  { destruct st; [exact I|]. apply allcalls_bind; [apply ac_gtid_executed; apply Pread; reflexivity|]. intros; exact I. }
  intros [gs|]; [|exact I]. apply allcalls_bind.
  { split; [apply Pdcsget|]. intros r. pac. }
  intros [pr e2]. cbn [snd]. destruct e2; exact I.
Qed.

Lemma c_node_positions s hosts : allcalls PP (node_positions s hosts).
Proof.
  unfold node_positions. cbn [allcalls]. split.
  - apply (allcalls_branches_map _ hosts (fun h => h)). intros h _. apply c_position_of.
  - intros rs. destruct (existsb _ rs); exact I.
Qed.

Lemma c_wait_repl_start fuel h dl : allcalls PP (wait_repl_start fuel h dl).
Proof.
  revert dl. induction fuel as [|f IH]; intros dl; cbn [wait_repl_start]; [exact I|].
  apply allcalls_bind; [apply c_now|]. intros t. destruct (t <? dl); [|exact I].
  apply allcalls_bind; [apply ac_replica_status; apply Pread; reflexivity|]. intros [st e]. cbn [fst snd].
  destruct e; [apply IH|]. destruct st as [rs|]; [|split; [apply Psleep|]; intros _; apply IH].
  destruct (rs_io rs && rs_sql rs); [exact I|]. split; [apply Psleep|]. intros _. apply IH.
Qed.

Lemma c_async_sw cfg h sw : allcalls PP (async_switch_allowed cfg h sw).
Proof.
  unfold async_switch_allowed. destruct (sw_cause_ sw); try exact I. destruct (_ && _); [|exact I].
  split; [apply Pdcsget|]. intros r.
  assert (G : allcalls PP (Do 60019 (Sql h SReplMonDelay) (fun r2 => match r2 with RZ d => Ret (d * sec <? c_async_allowed_lag cfg) | _ => Ret false end))).
  { split; [apply Pread; reflexivity|]. intros r2. destruct r2; exact I. }
  destruct r; try exact I; try exact G. destruct e; try exact I; exact G.
Qed.

Lemma c_wait_catch_up fuel cfg h target sw dl : allcalls PP (wait_for_catch_up fuel cfg h target sw dl).
Proof.
  induction fuel as [|f IH]; cbn [wait_for_catch_up]; [exact I|].
  apply allcalls_bind; [apply ac_gtid_executed; apply Pread; reflexivity|]. intros [g e]. cbn [fst snd].
  destruct e; [exact I|]. destruct (set_contain g target); [exact I|].
  split; [apply Pdcsget|]. intros r.
  assert (G : allcalls PP (Do 2308 (Sleep sec) (fun _ => t <- now_ 2309 ;; if dl <? t then Ret (Some false) else wait_for_catch_up f cfg h target sw dl))).
  { split; [apply Psleep|]. intros _. apply allcalls_bind; [apply c_now|]. intros t. destruct (dl <? t); [exact I|exact IH]. }
  destruct r; try exact G. 
  - destruct e; try exact G. exact I.
  - destruct v; try exact G. apply allcalls_bind; [apply c_async_sw|]. intros a. destruct a; [exact I|exact G].
Qed.
End Calm.

(* ---- the statements / coordination calls of the "calm" parts of the procedure *)
Definition sw_calm_stmt (st : stmt) : bool :=
  stmt_reads st || an_stmt_ok st ||
  match st with SSetRO _ | SKill _ | SSetOnline | SSetFlush _ | SSetSyncBinlog _ => true | _ => false end.

Definition dcs_calm (c : call) : bool :=
  match c with
  | DcsCreate PSwitch _ => false                              (* filing a request: only IssueFailover does that *)
  | DcsGet _ | DcsChildren _ | DcsDelete _ | DcsCreate _ _ | DcsSetEph _ _ | Now | Sleep _ | Peek _ | FileWrite _ | FileExists _ | FileRemove _ => true
  | DcsSet PMaster _ | DcsSet PLastSwitch _ => false     (* the two success records *)
  | DcsSet _ _ => true
  | _ => false
  end.

Section Calm2.
Variable P : call -> bool.
Notation PP := (fun (_ : site) (c : call) => P c = true).
Hypothesis Pstmt : forall h st, sw_calm_stmt st = true -> P (Sql h st) = true.
Hypothesis Pdcs : forall c, dcs_calm c = true -> P c = true.

Let Pnow : P Now = true := Pdcs Now eq_refl.
Let Psleep : forall d, P (Sleep d) = true := fun d => Pdcs (Sleep d) eq_refl.
Let Ppeek : forall c, P (Peek c) = true := fun c => Pdcs (Peek c) eq_refl.
Lemma Pread_ h st : stmt_reads st = true -> P (Sql h st) = true.
Proof. intros H. apply Pstmt. unfold sw_calm_stmt. rewrite H. reflexivity. Qed.
Let Pdcsget : forall p, P (DcsGet p) = true := fun p => Pdcs (DcsGet p) eq_refl.
Let Pchildren : forall p, P (DcsChildren p) = true := fun p => Pdcs (DcsChildren p) eq_refl.

Ltac pstmt := first [apply Pstmt; reflexivity | apply Pdcs; reflexivity].

Lemma d_timing_now n : allcalls PP (start_timing_now n).
Proof. unfold start_timing_now, now_, dcs_set_. pac; pstmt. Qed.
Lemma d_stop_timing n : allcalls PP (stop_timing n).
Proof. unfold stop_timing, now_, dcs_get_time, dcs_delete_. pac; pstmt. Qed.
Lemma d_log_failure sw : allcalls PP (log_switchover_failure sw).
Proof. unfold log_switchover_failure, now_, dcs_get_time, dcs_delete_. pac; pstmt. Qed.

Lemma d_finish sw : allcalls PP (finish_switchover sw false).
Proof.
  unfold finish_switchover. apply allcalls_bind; [apply (c_now P Pnow)|]. intros t.
  apply allcalls_bind; [apply d_log_failure|].
  intros _. unfold dcs_delete_, dcs_set_. cbn [negb]. pac; pstmt.
Qed.

Lemma d_set_ro_once h s : allcalls PP (set_read_only_once h s).
Proof. apply ac_set_read_only_once; pstmt. Qed.
Lemma d_force h s : allcalls PP (set_read_only_with_force 64 h s).
Proof. apply ac_set_read_only_with_force; try pstmt; intros; pstmt. Qed.

Lemma d_freeze env h : allcalls PP (freeze_host env h).
Proof.
  unfold freeze_host. destruct (state_ping _ _) as [[|]|]; try exact I.
  apply allcalls_bind; [apply d_set_ro_once|]. intros [e|]; [|exact I].
  apply allcalls_bind; [apply d_force|]. intros; exact I.
Qed.

Lemma d_stop_io env h c : allcalls PP (stop_io_host env h c).
Proof.
  unfold stop_io_host. destruct (state_ping _ _) as [[|]|]; try exact I.
  apply allcalls_bind; [apply ac_exec; pstmt|]. intros [e|]; [exact I|].
  apply allcalls_bind; [apply (c_gns P Pnow Pread_)|]. intros ns. destruct (perm_broken ns); exact I.
Qed.

Lemma d_opt_disable_all m nodes : allcalls PP (opt_disable_all m nodes).
Proof.
  unfold opt_disable_all, dcs_children_.
  apply allcalls_bind; [split; [pstmt|intros r; pac]|]. intros hs.
  apply allcalls_bind; [apply ac_repl_settings; pstmt|]. intros r.
  apply allcalls_bind; [|intros; exact I].
  apply allcalls_forM. intros h _. destruct (mem_host h nodes); [|exact I].
  unfold opt_disable, set_repl_settings, opt_delete_host. pac; pstmt.
Qed.

Lemma d_opt_disable_all_k k m nodes : allcalls PP (opt_disable_all_k k m nodes).
Proof.
  unfold opt_disable_all_k. destruct k; [apply d_opt_disable_all|].
  unfold dcs_children_. apply allcalls_bind; [split; [pstmt|intros r; pac]|]. intros; exact I.
Qed.

Lemma d_set_recovery h : allcalls PP (set_recovery h).
Proof. unfold set_recovery, get_active_nodes, set_active_nodes, dcs_create_tolerant. pac; pstmt. Qed.

Lemma d_update_active cfg env mem : allcalls PP (update_active_nodes cfg env mem).
Proof.
  eapply allcalls_impl; [|apply update_active_nodes_calls].
  intros s c H. destruct c; cbn in H; try contradiction; try (apply Pdcs; reflexivity).
  all: try (apply Pstmt; unfold sw_calm_stmt; rewrite H; rewrite orb_true_r; reflexivity).
  all: try (destruct p; try contradiction; apply Pdcs; reflexivity).
Qed.

Lemma d_reenable h : allcalls PP (reenable_events h).
Proof. unfold reenable_events. pac; try (apply Pread_; reflexivity). Qed.
End Calm2.

(* ---- lock re-checks before anything is re-pointed or promoted ------------------ *)
Definition promo_call (c : call) : bool :=
  match c with Sql _ SSetWritable | Sql _ SResetReplAll | DcsSet PMaster _ => true | _ => false end.
Definition repoint_call (c : call) : bool := match c with Sql _ (SChangeSource _) => true | _ => false end.
Definition lk_step (st : Z) (c : call) (r : resp) : Z :=
  match c, r with LockAcquire, RBool true => st + 1 | _, _ => st end.
Definition lk_ok (st : Z) (c : call) : Prop :=
  (promo_call c = true -> 2 <= st) /\ (repoint_call c = true -> 1 <= st).

Definition calmb (c : call) : bool :=
  match c with
  | Sql _ st => sw_calm_stmt st
  | LockAcquire | LockRelease | DcsConnected => false
  | _ => dcs_calm c
  end.
Definition calm1b (c : call) : bool :=
  match c with Sql _ (SChangeSource _) | Sql _ SStopRepl | Sql _ SStartRepl => true | _ => calmb c end.

Lemma calmb_ok c : calmb c = true -> forall st, lk_ok st c /\ neutral Z lk_step c.
Proof.
  intros H st. split.
  - split; intros K; destruct c; cbn in *; try discriminate.
    + destruct s; cbn in *; discriminate.
    + destruct p; discriminate.
    + destruct s; cbn in *; discriminate.
  - intros st' r. destruct c; cbn in *; try reflexivity; discriminate.
Qed.
Lemma calm1b_ok c : calm1b c = true -> forall st, 1 <= st -> lk_ok st c /\ neutral Z lk_step c.
Proof.
  intros H st Hst. split.
  - split; intros K; [|exact Hst]. destruct c; cbn in *; try discriminate.
    + destruct s; cbn in *; discriminate.
    + destruct p; discriminate.
  - intros st' r. destruct c; cbn in *; try reflexivity; try discriminate.
Qed.

Lemma safe_calm {A} (p : prog A) : allcalls (fun _ c => calmb c = true) p -> forall st, safe Z lk_step lk_ok st p.
Proof.
  intros H st. apply safe_at. eapply allcalls_impl; [|exact H]. intros s c K. apply calmb_ok. exact K.
Qed.
Lemma safe_calm1 {A} (p : prog A) : allcalls (fun _ c => calm1b c = true) p -> forall st, 1 <= st -> safe Z lk_step lk_ok st p.
Proof.
  intros H st Hst. apply safe_at. eapply allcalls_impl; [|exact H]. intros s c K. apply calm1b_ok; assumption.
Qed.

Lemma calmb_stmt h st : sw_calm_stmt st = true -> calmb (Sql h st) = true. Proof. intros H; exact H. Qed.
Lemma calmb_dcs c : dcs_calm c = true -> calmb c = true. Proof. destruct c; cbn; intros H; try exact H; discriminate. Qed.
Lemma calm1b_stmt h st : sw_calm_stmt st = true -> calm1b (Sql h st) = true.
Proof. intros H. cbn. destruct st; try exact H; reflexivity. Qed.
Lemma calm1b_dcs c : dcs_calm c = true -> calm1b c = true.
Proof. intros H. unfold calm1b. destruct c; try (apply calmb_dcs; exact H); cbn in H; discriminate. Qed.

Lemma pcm_calm1 cfg h m : allcalls (fun _ c => calm1b c = true) (perform_change_master cfg h m).
Proof.
  unfold perform_change_master. destruct (N.eqb h m); [exact I|].
  apply allcalls_bind; [apply ac_exec; reflexivity|]. intros [e|]; [exact I|].
  apply allcalls_bind; [apply ac_exec; reflexivity|]. intros [e|]; [exact I|].
  apply allcalls_bind; [apply ac_exec; reflexivity|]. intros [e|]; [exact I|].
  assert (CR1 : forall h0 st, stmt_reads st = true -> calm1b (Sql h0 st) = true).
  { intros h0 st H. apply calm1b_stmt. unfold sw_calm_stmt. rewrite H. reflexivity. }
  apply allcalls_bind; [apply (c_now calm1b); first [exact CR1 | intros; reflexivity]|]. intros t.
  apply allcalls_bind; [|intros; exact I].
  apply (c_wait_repl_start calm1b); first [exact CR1 | intros; reflexivity].
Qed.

Ltac dapp L := first [apply (L calmb calmb_stmt calmb_dcs) | apply (L calmb calmb_dcs) | apply (L calmb calmb_stmt)].

Lemma lk_step_mono lo : forall st c r, lo <= st -> lo <= lk_step st c r.
Proof. intros st c r H. unfold lk_step. destruct c; try exact H. destruct r; try exact H. destruct b; lia. Qed.

(* sb lo: peel one bind whose first part is calm, keeping "lo <= state" *)
Ltac sb lo := apply (safe_bind_inv Z lk_step lk_ok (fun st => lo <= st) (lk_step_mono lo)); [assumption| |].

Lemma CRb : forall h st0, stmt_reads st0 = true -> calmb (Sql h st0) = true.
Proof. intros h st0 H. apply calmb_stmt. unfold sw_calm_stmt. rewrite H. reflexivity. Qed.

(* stage 3 from a state with >= 1 successful re-check *)
Lemma sw_promote_locks cfg env mem active nm mrs st : 1 <= st -> safe Z lk_step lk_ok st (sw_promote cfg env mem active nm mrs).
Proof.
  intros H1. pose proof CRb as CR. unfold sw_promote.
  unfold lock_acquire at 1. cbn [bind safe]. split; [split; discriminate|]. intros r2.
  destruct r2; cbn [bind safe negb]; try exact I. match goal with |- context [RBool ?x] => destruct x end; cbn [negb]; [|exact I].
  assert (H2 : 2 <= lk_step st LockAcquire (RBool true)) by (cbn; lia).
  revert H2. generalize (lk_step st LockAcquire (RBool true)) as st2. clear st H1. intros st H2.
  sb 2; [apply safe_calm; apply (c_cluster_state calmb); first [exact CR | intros; reflexivity]|]. clear st H2. intros st cs2 H2.
  destruct (state_ping cs2 nm) as [[|]|]; try exact I.
  match goal with |- safe _ _ _ _ (if ?c then _ else _) => destruct c end; [exact I|].
  sb 2; [apply safe_calm; apply ac_exec; reflexivity|]. clear st H2. intros st [e5|] H2; [exact I|].
  cbn [safe]. split.
  { induction active as [|h r IH]; [exact I|]. cbn [map]. split; [|exact IH].
    assert (K : allcalls (fun _ c => calm1b c = true)
      (match state_ping cs2 h with
       | None => Ret ROk
       | Some pok => if N.eqb h nm || negb pok then Ret ROk
                     else e <- perform_change_master cfg h nm ;; Ret (match e with Some x => RErr x | None => ROk end)
       end)).
    { destruct (state_ping cs2 h) as [pok|]; [|exact I].
      destruct (N.eqb h nm || negb pok); [exact I|]. apply allcalls_bind; [apply pcm_calm1|]. intros; exact I. }
    eapply allcalls_impl; [|exact K]. intros s c Kc. apply calm1b_ok; [exact Kc|lia]. }
  intros errs3.
  match goal with |- safe _ _ _ _ (if ?c then _ else _) => destruct c end; [exact I|].
  sb 2; [apply safe_calm; apply ac_replica_status; reflexivity|]. clear st H2. intros st os H2.
  sb 2.
  { destruct (snd os); [apply safe_calm; dapp d_set_recovery|].
    destruct (fst os) as [rs|]; [|apply safe_calm; dapp d_set_recovery].
    destruct (is_slave_permanently_lost rs mrs); [apply safe_calm; dapp d_set_recovery|exact I]. }
  clear st H2. intros st [rec|] H2; [exact I|].
  sb 2; [apply safe_calm; apply ac_exec; reflexivity|]. clear st H2. intros st [e6|] H2; [exact I|].
  unfold exec_ at 1. cbn [bind safe]. split; [split; [intros _; exact H2|discriminate]|]. intros r7.
  assert (H2' : 2 <= lk_step st (Sql nm SResetReplAll) r7) by (apply lk_step_mono; exact H2).
  revert H2'. generalize (lk_step st (Sql nm SResetReplAll) r7) as st7. clear st H2. intros st H2.
  assert (G : forall (e7 : oerr), safe Z lk_step lk_ok st
     (match e7 with
      | Some _ => Ret (SwErr 1481, mem)
      | None =>
          cs3 <- cluster_state_from_db 1486 (se_all_hosts env);;
          ua <- update_active_nodes cfg {| ae_master := nm; ae_master_uuid := match assoc nm (se_uuid_of env) with Some u => u | None => 0%N end;
                                           ae_state := cs3; ae_state_dcs := cs3; ae_old_active := se_active env |} mem;;
          (let mem' := snd ua in
           e8 <- exec_ 1493 nm SSetWritable;;
           match e8 with
           | Some _ => Ret (SwErr 1495, mem')
           | None => stop_timing 0;;; reenable_events nm;;; e9 <- dcs_set_ 1517 PMaster (VHost nm);;
                     Ret (match e9 with Some _ => SwErr 1519 | None => SwOk end, mem')
           end)
      end)).
  { intros [e7|]; [exact I|].
    sb 2; [apply safe_calm; apply (c_cluster_state calmb); first [exact CR | intros; reflexivity]|]. intros st3 cs3 H3.
    apply (safe_bind_inv Z lk_step lk_ok (fun st => 2 <= st) (lk_step_mono 2)); [assumption|apply safe_calm; dapp d_update_active|].
    intros st4 ua H4. cbn zeta.
    unfold exec_ at 1. cbn [bind safe]. split; [split; [intros _; exact H4|discriminate]|]. intros r8.
    assert (H5 : 2 <= lk_step st4 (Sql nm SSetWritable) r8) by (apply lk_step_mono; exact H4).
    revert H5. generalize (lk_step st4 (Sql nm SSetWritable) r8) as st5. intros st5 H5.
    assert (G2 : forall e8 : oerr, safe Z lk_step lk_ok st5
      (match e8 with
       | Some _ => Ret (SwErr 1495, snd ua)
       | None => stop_timing 0;;; reenable_events nm;;; e9 <- dcs_set_ 1517 PMaster (VHost nm);;
                 Ret (match e9 with Some _ => SwErr 1519 | None => SwOk end, snd ua)
       end)).
    { intros [e8|]; [exact I|].
      apply (safe_bind_inv Z lk_step lk_ok (fun st => 2 <= st) (lk_step_mono 2)); [assumption|apply safe_calm; dapp d_stop_timing|].
      intros st6 _ H6.
      apply (safe_bind_inv Z lk_step lk_ok (fun st => 2 <= st) (lk_step_mono 2)); [assumption|apply safe_calm; apply (d_reenable calmb); first [exact calmb_stmt | exact calmb_dcs]|].
      intros st7 _ H7. unfold dcs_set_. cbn [bind safe]. split; [split; [intros _; exact H7|discriminate]|].
      intros r9. destruct r9; try destruct e; exact I. }
    destruct r8; cbn [bind]; first [apply (G2 (Some EOther)) | apply (G2 None)]. }
  destruct r7; cbn [bind]; first [apply (G (Some EOther)) | apply (G None)].
Qed.

(* stage 2 from a state with >= 1 successful re-check *)
Lemma sw_after_positions_locks cfg env sw mem active positions st : 1 <= st ->
  safe Z lk_step lk_ok st (sw_after_positions cfg env sw mem active positions).
Proof.
  intros H1. pose proof CRb as CR. unfold sw_after_positions.
  destruct (most_recent positions) as [|mrh mrs|]; [| |exact I].
  { cbn [safe]. split; [split; discriminate|]. intros; exact I. }
  destruct (sw_choose cfg sw positions mrh) as [nm|]; [|exact I].
  destruct (negb (mem_host nm (map fst (se_all_hosts env)))); [exact I|].
  sb 1.
  { destruct (negb (N.eqb nm mrh)); [|exact I].
    sb 1; [apply safe_calm; apply ac_exec; reflexivity|]. intros st' [e|] H1'; [exact I|].
    sb 1; [apply safe_calm1; [apply pcm_calm1|assumption]|]. intros; exact I. }
  clear st H1. intros st pre H1. destruct (negb pre); [exact I|].
  sb 1; [apply safe_calm; apply (c_now calmb); first [exact CR | intros; reflexivity]|]. clear st H1. intros st t0 H1.
  sb 1; [apply safe_calm; apply (c_wait_catch_up calmb); first [exact CR | intros; reflexivity]|]. clear st H1. intros st cu H1.
  destruct cu as [[|]|]; try exact I. apply sw_promote_locks. exact H1.
Qed.

Theorem switchover_lock_rechecks cfg env sw mem : safe Z lk_step lk_ok 0 (perform_switchover cfg env sw mem).
Proof.
  pose proof CRb as CR.
  assert (H0 : 0 <= 0) by lia. revert H0. generalize 0 at 2 3 as st. intros st H0.
  unfold perform_switchover.
  match goal with |- safe _ _ _ _ (if ?c then _ else _) => destruct c end; [exact I|].
  match goal with |- safe _ _ _ _ (if ?c then _ else _) => destruct c end; [exact I|].
  set (active := match sw_cause_ sw, sw_from sw with | CauseAuto, Some f => _ | _, _ => _ end).
  sb 0; [apply safe_calm; dapp d_opt_disable_all_k|]. clear st H0. intros st [e0|] H0; [exact I|].
  sb 0; [destruct (negb (is_failover sw)); [apply safe_calm; dapp d_timing_now|exact I]|]. clear st H0. intros st _ H0.
  cbn [safe]. split.
  { induction active as [|h r IH]; [exact I|]. cbn [map]. split; [|exact IH].
    eapply allcalls_impl; [|dapp d_freeze]. intros s c K. apply calmb_ok. exact K. }
  intros errs.
  match goal with |- safe _ _ _ _ (if ?c then _ else _) => destruct c end.
  { sb 0; [apply safe_calm; dapp d_finish|]. intros; exact I. }
  destruct (state_ping (se_state env) (se_old_master env)); [|exact I].
  cbn [safe]. split.
  { induction (filter_out active [se_old_master env]) as [|h r IH]; [exact I|]. cbn [map]. split; [|exact IH].
    eapply allcalls_impl; [|dapp d_stop_io]. intros s c K. apply calmb_ok. exact K. }
  intros errs2.
  match goal with |- safe _ _ _ _ (if ?c then _ else _) => destruct c end; [exact I|].
  unfold lock_acquire at 1. cbn [bind safe]. split; [split; discriminate|]. intros r1.
  destruct r1; cbn [bind safe negb]; try exact I. match goal with |- context [RBool ?x] => destruct x end; cbn [negb]; [|exact I].
  assert (H1 : 1 <= lk_step st LockAcquire (RBool true)) by (cbn; lia).
  revert H1. generalize (lk_step st LockAcquire (RBool true)) as st1. clear st H0. intros st H1.
  sb 1; [apply safe_calm; apply (c_node_positions calmb); first [exact CR | intros; reflexivity]|]. clear st H1. intros st op H1.
  destruct op as [positions|]; [|exact I].
  match goal with |- safe _ _ _ _ (if ?c then _ else _) => destruct c end; [exact I|].
  match goal with |- safe _ _ _ _ (if ?c then _ else _) => destruct c end; [exact I|].
  apply sw_after_positions_locks. exact H1.
Qed.

Theorem switchover_lock_rechecks_trace cfg env sw mem tr o : runs (perform_switchover cfg env sw mem) tr o ->
  trace_ok Z lk_step lk_ok 0 tr.
Proof. apply safe_sound. apply switchover_lock_rechecks. Qed.

(* ---- split brain: nothing but the emergency marker ------------------------------- *)
Theorem splitbrain_aborts cfg env sw mem active positions :
  most_recent positions = RecentSplitBrain ->
  sw_after_positions cfg env sw mem active positions = Do 1370 (FileWrite (se_emerge_file env)) (fun _ => Ret (SwErr 1375, mem)).
Proof. intros H. unfold sw_after_positions. rewrite H. reflexivity. Qed.

(* ---- promotion evidence: the new master reported an executed set that contains
   the most recent position (or the async-lag exception fired) ---------------------- *)
Definition has_event (tr : trace) (c : call) (r : resp) : Prop := exists e, In e tr /\ ev_call e = c /\ ev_resp e = r.

Definition catch_up_evidence (cfg : config) (nm : host) (target : gtidset) (tr : trace) : Prop :=
  (exists g, has_event tr (Sql nm SGtidExecuted) (RGtid g) /\ set_contain g target = true) \/
  (c_async cfg = true /\ 0 < c_async_allowed_lag cfg /\ exists d, has_event tr (Sql nm SReplMonDelay) (RZ d) /\ d * sec < c_async_allowed_lag cfg).

Lemma has_event_cons e tr c r : has_event tr c r -> has_event (e :: tr) c r.
Proof. intros (x & Hi & H). exists x. split; [right; exact Hi|exact H]. Qed.
Lemma has_event_app_l t1 t2 c r : has_event t1 c r -> has_event (t1 ++ t2) c r.
Proof. intros (x & Hi & H). exists x. split; [apply in_or_app; left; exact Hi|exact H]. Qed.
Lemma has_event_app_r t1 t2 c r : has_event t2 c r -> has_event (t1 ++ t2) c r.
Proof. intros (x & Hi & H). exists x. split; [apply in_or_app; right; exact Hi|exact H]. Qed.

Lemma async_allowed_true cfg h sw tr : runs (async_switch_allowed cfg h sw) tr (Done true) ->
  c_async cfg = true /\ 0 < c_async_allowed_lag cfg /\ exists d, has_event tr (Sql h SReplMonDelay) (RZ d) /\ d * sec < c_async_allowed_lag cfg.
Proof.
  unfold async_switch_allowed. destruct (sw_cause_ sw); try (cbn; intros [_ E]; inversion E; fail).
  destruct (c_async cfg) eqn:Ea; cbn [andb]; [|cbn; intros [_ E]; inversion E].
  destruct (Z.ltb_spec 0 (c_async_allowed_lag cfg)) as [Hl|Hl]; [|cbn; intros [_ E]; inversion E].
  cbn [runs]. intros H. destruct tr as [|e1 tr1]; [destruct H|]. destruct H as (_ & _ & H).
  assert (G : runs (Do 60019 (Sql h SReplMonDelay) (fun r2 => match r2 with RZ d => Ret (d * sec <? c_async_allowed_lag cfg) | _ => Ret false end)) tr1 (Done true) ->
              exists d, has_event (e1 :: tr1) (Sql h SReplMonDelay) (RZ d) /\ d * sec < c_async_allowed_lag cfg).
  { cbn [runs]. intros K. destruct tr1 as [|e2 tr2]; [destruct K|]. destruct K as (_ & Kc & K).
    destruct (ev_resp e2) eqn:Er; cbn in K; destruct K as [_ E]; inversion E as [E'].
    symmetry in E'. apply Z.ltb_lt in E'. exists z. split; [|exact E']. exists e2. split; [right; left; reflexivity|auto]. }
  split; [reflexivity|]. split; [exact Hl|].
  destruct (ev_resp e1); try (cbn in H; destruct H as [_ E]; inversion E; fail); try (apply G; exact H).
  destruct e; try (cbn in H; destruct H as [_ E]; inversion E; fail). apply G; exact H.
Qed.

Lemma wait_catch_up_true fuel cfg h target sw dl : forall tr,
  runs (wait_for_catch_up fuel cfg h target sw dl) tr (Done (Some true)) -> catch_up_evidence cfg h target tr.
Proof.
  induction fuel as [|f IH]; intros tr H; cbn [wait_for_catch_up] in H; [cbn in H; destruct H as [_ E]; inversion E|].
  apply runs_bind_inv in H. destruct H as [(t1 & t2 & [g e] & H1 & H2 & ->)|(s & _ & E)]; [|discriminate].
  cbn [fst snd] in H2. destruct e; [cbn in H2; destruct H2 as [_ E]; inversion E|].
  destruct (set_contain g target) eqn:Ec.
  - cbn in H2. destruct H2 as [-> _]. rewrite app_nil_r. left. exists g. split; [|exact Ec].
    unfold gtid_executed in H1. cbn [runs] in H1. destruct t1 as [|e1 t1']; [destruct H1|]. destruct H1 as (_ & Hc & H1).
    destruct (ev_resp e1) eqn:Er; cbn in H1; destruct H1 as [_ E]; inversion E; subst.
    exists e1. split; [left; reflexivity|auto].
  - cbn [runs] in H2. destruct t2 as [|e2 t2']; [destruct H2|]. destruct H2 as (_ & _ & H2).
    assert (Hev : forall t, catch_up_evidence cfg h target t -> catch_up_evidence cfg h target (t1 ++ e2 :: t)).
    { intros t [(g' & Hg & Hc)|(A1 & A2 & d & Hd & Hl)].
      - left. exists g'. split; [apply has_event_app_r; apply has_event_cons; exact Hg|exact Hc].
      - right. split; [exact A1|]. split; [exact A2|]. exists d. split; [apply has_event_app_r; apply has_event_cons; exact Hd|exact Hl]. }
    assert (G : forall t, runs (Do 2308 (Sleep sec) (fun _ => t' <- now_ 2309 ;; if dl <? t' then Ret (Some false) else wait_for_catch_up f cfg h target sw dl)) t (Done (Some true)) ->
                catch_up_evidence cfg h target t).
    { intros t K. cbn [runs] in K. destruct t as [|e3 t3]; [destruct K|]. destruct K as (_ & _ & K).
      unfold now_ in K. cbn [bind runs] in K. destruct t3 as [|e4 t4]; [destruct K|]. destruct K as (_ & _ & K).
      match type of K with context [if ?c then _ else _] => destruct c end; [cbn in K; destruct K as [_ E]; inversion E|].
      apply IH in K. destruct K as [(g' & Hg & Hc)|(A1 & A2 & d & Hd & Hl)].
      - left. exists g'. split; [apply has_event_cons; apply has_event_cons; exact Hg|exact Hc].
      - right. split; [exact A1|]. split; [exact A2|]. exists d. split; [apply has_event_cons; apply has_event_cons; exact Hd|exact Hl]. }
    apply Hev.
    destruct (ev_resp e2); try (apply G; exact H2).
    + destruct e; try (apply G; exact H2). cbn in H2. destruct H2 as [_ E]; inversion E.
    + destruct v; try (apply G; exact H2).
      apply runs_bind_inv in H2. destruct H2 as [(u1 & u2 & a & K1 & K2 & ->)|(s' & _ & E)]; [|discriminate].
      destruct a.
      * apply async_allowed_true in K1. destruct K1 as (A1 & A2 & d & Hd & Hl).
        right. split; [exact A1|]. split; [exact A2|]. exists d. split; [apply has_event_app_l; exact Hd|exact Hl].
      * apply G in K2. destruct K2 as [(g' & Hg & Hc)|(A1 & A2 & d & Hd & Hl)].
        -- left. exists g'. split; [apply has_event_app_r; exact Hg|exact Hc].
        -- right. split; [exact A1|]. split; [exact A2|]. exists d. split; [apply has_event_app_r; exact Hd|exact Hl].
Qed.

Definition issues_set_writable (tr : trace) : Prop := exists e h, In e tr /\ ev_call e = Sql h SSetWritable.

Lemma calm_no_set_writable {A} (p : prog A) tr o :
  allcalls (fun _ c => calm1b c = true) p -> runs p tr o -> ~ issues_set_writable tr.
Proof.
  intros Ha Hr (e & h & Hi & Hc). pose proof (allcalls_sound _ _ Ha tr o Hr) as F.
  rewrite Forall_forall in F. specialize (F e Hi). unfold ProgFacts.ev_ok in F. cbn beta in F. rewrite Hc in F. cbn in F. discriminate.
Qed.

Lemma issues_app t1 t2 : issues_set_writable (t1 ++ t2) -> issues_set_writable t1 \/ issues_set_writable t2.
Proof.
  intros (e & h & Hi & Hc). apply in_app_or in Hi. destruct Hi as [Hi|Hi]; [left|right]; exists e, h; auto.
Qed.

Lemma calmb_calm1b c : calmb c = true -> calm1b c = true.
Proof. intros H. unfold calm1b. destruct c; try exact H. destruct s; try exact H; reflexivity. Qed.

Lemma catch_up_evidence_app_l cfg nm tgt t1 t2 : catch_up_evidence cfg nm tgt t1 -> catch_up_evidence cfg nm tgt (t1 ++ t2).
Proof.
  intros [(g & Hg & Hc)|(A1 & A2 & d & Hd & Hl)].
  - left. exists g. split; [apply has_event_app_l; exact Hg|exact Hc].
  - right. split; [exact A1|]. split; [exact A2|]. exists d. split; [apply has_event_app_l; exact Hd|exact Hl].
Qed.
Lemma catch_up_evidence_app_r cfg nm tgt t1 t2 : catch_up_evidence cfg nm tgt t2 -> catch_up_evidence cfg nm tgt (t1 ++ t2).
Proof.
  intros [(g & Hg & Hc)|(A1 & A2 & d & Hd & Hl)].
  - left. exists g. split; [apply has_event_app_r; exact Hg|exact Hc].
  - right. split; [exact A1|]. split; [exact A2|]. exists d. split; [apply has_event_app_r; exact Hd|exact Hl].
Qed.

(* every run of stage 2 that makes a node writable found a most recent position,
   chose a candidate, and saw the candidate report an executed set containing
   that position (or the configured async-lag exception) BEFORE doing so *)
Theorem promotion_needs_catch_up cfg env sw mem active positions tr o :
  runs (sw_after_positions cfg env sw mem active positions) tr o ->
  issues_set_writable tr ->
  exists mrh mrs nm, most_recent positions = RecentFound mrh mrs /\ sw_choose cfg sw positions mrh = Some nm /\
                     catch_up_evidence cfg nm mrs tr.
Proof.
  pose proof CRb as CR.
  unfold sw_after_positions. intros H Hw.
  destruct (most_recent positions) as [|mrh mrs|] eqn:Emr.
  - exfalso. cbn [runs] in H. destruct tr as [|e tr']; [destruct H|]. destruct H as (_ & Hc & H). cbn in H. destruct H as [-> _].
    destruct Hw as (x & h & [<-|[]] & Hx). rewrite Hc in Hx. discriminate.
  - destruct (sw_choose cfg sw positions mrh) as [nm|] eqn:Ech.
    2:{ exfalso. cbn in H. destruct H as [-> _]. destruct Hw as (x & h & [] & _). }
    exists mrh, mrs, nm. split; [reflexivity|]. split; [exact Ech|].
    destruct (negb (mem_host nm (map fst (se_all_hosts env)))).
    { exfalso. cbn in H. destruct H as [-> _]. destruct Hw as (x & h & [] & _). }
    apply runs_bind_inv in H. destruct H as [(t1 & t2 & pre & H1 & H2 & ->)|(s & H1 & _)].
    2:{ exfalso. revert Hw. eapply calm_no_set_writable; [|exact H1].
        destruct (negb (N.eqb nm mrh)); [|exact I].
        apply allcalls_bind; [apply ac_exec; reflexivity|]. intros [e|]; [exact I|].
        apply allcalls_bind; [apply pcm_calm1|]. intros; exact I. }
    assert (N1 : ~ issues_set_writable t1).
    { eapply calm_no_set_writable; [|exact H1].
      destruct (negb (N.eqb nm mrh)); [|exact I].
      apply allcalls_bind; [apply ac_exec; reflexivity|]. intros [e|]; [exact I|].
      apply allcalls_bind; [apply pcm_calm1|]. intros; exact I. }
    apply issues_app in Hw. destruct Hw as [Hw|Hw]; [contradiction|].
    apply catch_up_evidence_app_r.
    destruct (negb pre); [exfalso; cbn in H2; destruct H2 as [-> _]; destruct Hw as (x & h & [] & _)|].
    apply runs_bind_inv in H2. destruct H2 as [(u1 & u2 & t0 & K1 & K2 & ->)|(s & K1 & _)].
    2:{ exfalso. revert Hw. eapply calm_no_set_writable; [|exact K1].
        eapply allcalls_impl; [intros s0 c; apply calmb_calm1b|]. apply (c_now calmb); reflexivity. }
    assert (N2 : ~ issues_set_writable u1).
    { eapply calm_no_set_writable; [|exact K1].
      eapply allcalls_impl; [intros s0 c; apply calmb_calm1b|]. apply (c_now calmb); reflexivity. }
    apply issues_app in Hw. destruct Hw as [Hw|Hw]; [contradiction|].
    apply catch_up_evidence_app_r.
    apply runs_bind_inv in K2. destruct K2 as [(v1 & v2 & cu & L1 & L2 & ->)|(s & L1 & _)].
    2:{ exfalso. revert Hw. eapply calm_no_set_writable; [|exact L1].
        eapply allcalls_impl; [intros s0 c; apply calmb_calm1b|]. apply (c_wait_catch_up calmb); first [exact CR | intros; reflexivity]. }
    assert (N3 : ~ issues_set_writable v1).
    { eapply calm_no_set_writable; [|exact L1].
      eapply allcalls_impl; [intros s0 c; apply calmb_calm1b|]. apply (c_wait_catch_up calmb); first [exact CR | intros; reflexivity]. }
    apply issues_app in Hw. destruct Hw as [Hw|Hw]; [contradiction|].
    apply catch_up_evidence_app_l.
    destruct cu as [[|]|].
    + eapply wait_catch_up_true; exact L1.
    + exfalso. cbn in L2. destruct L2 as [-> _]. destruct Hw as (x & h & [] & _).
    + exfalso. cbn in L2. destruct L2 as [-> _]. destruct Hw as (x & h & [] & _).
  - exfalso. cbn in H. destruct H as [-> _]. destruct Hw as (x & h & [] & _).
Qed.
