From Coq Require Import ZArith Bool List Lia.
From Mysync Require Import Gtid.Interval.
Import ListNotations.
Open Scope Z_scope.

Ltac bool_to_prop :=
  repeat match goal with
  | H : _ && _ = true |- _ => apply andb_true_iff in H; destruct H
  | H : _ || _ = true |- _ => apply orb_true_iff in H
  | H : _ && _ = false |- _ => apply andb_false_iff in H
  | H : _ || _ = false |- _ => apply orb_false_iff in H; destruct H
  | H : negb _ = true |- _ => apply negb_true_iff in H
  | H : negb _ = false |- _ => apply negb_false_iff in H
  | H : (_ <=? _) = true |- _ => apply Z.leb_le in H
  | H : (_ <=? _) = false |- _ => apply Z.leb_gt in H
  | H : (_ <? _) = true |- _ => apply Z.ltb_lt in H
  | H : (_ <? _) = false |- _ => apply Z.ltb_ge in H
  | H : (_ =? _) = true |- _ => apply Z.eqb_eq in H
  | H : (_ =? _) = false |- _ => apply Z.eqb_neq in H
  end.

Lemma mem_iv_true g a b : mem_iv g (a, b) = true <-> a <= g < b.
Proof. unfold mem_iv; cbn. rewrite andb_true_iff, Z.leb_le, Z.ltb_lt. tauto. Qed.
Lemma mem_iv_false g a b : mem_iv g (a, b) = false <-> (g < a \/ b <= g).
Proof. unfold mem_iv; cbn. rewrite andb_false_iff, Z.leb_gt, Z.ltb_ge. tauto. Qed.

Lemma mem_cons g i s : mem (i :: s) g = mem_iv g i || mem s g.
Proof. reflexivity. Qed.
Lemma mem_app g s t : mem (s ++ t) g = mem s g || mem t g.
Proof. unfold mem. apply existsb_app. Qed.

Lemma sep_weaken lo lo' s : lo' <= lo -> sep lo s -> sep lo' s.
Proof. destruct s as [|[a b] r]; cbn; [tauto|]. intros Hl (H1 & H2 & H3). repeat split; auto; lia. Qed.

Lemma sep_mem_false lo s g : sep lo s -> g <= lo -> mem s g = false.
Proof.
  revert lo. induction s as [|[a b] r IH]; intros lo Hs Hg; [reflexivity|].
  cbn in Hs. destruct Hs as (H1 & H2 & H3). rewrite mem_cons.
  apply orb_false_iff. split.
  - apply mem_iv_false. lia.
  - apply (IH b); [exact H3|lia].
Qed.

Lemma sep_tail lo a b r : sep lo ((a, b) :: r) -> sep b r.
Proof. cbn. tauto. Qed.

Lemma normalized_tail i r : normalized (i :: r) -> normalized r.
Proof. destruct i as [a b]. intros [lo H]. exists b. eapply sep_tail; eauto. Qed.

Lemma sepb_spec lo s : sepb lo s = true <-> sep lo s.
Proof.
  revert lo. induction s as [|[a b] r IH]; intros lo; cbn; [tauto|].
  rewrite !andb_true_iff, !Z.ltb_lt, IH. tauto.
Qed.
Lemma normalizedb_spec s : normalizedb s = true <-> normalized s.
Proof.
  destruct s as [|[a b] r]; cbn.
  - split; [intros _; exists 0; exact I|reflexivity].
  - rewrite andb_true_iff, Z.ltb_lt, sepb_spec. split.
    + intros [H1 H2]. exists (a - 1). cbn. repeat split; auto; lia.
    + intros [lo (H1 & H2 & H3)]. auto.
Qed.

(* ------------------------------------------------------------------ Contain *)
Lemma contain1_spec s : forall lo x y, sep lo s -> x < y ->
  (contain1 s (x, y) = true <-> forall g, x <= g < y -> mem s g = true).
Proof.
  induction s as [|[a b] r IH]; intros lo x y Hs Hxy.
  - unfold contain1; cbn. split; [discriminate|]. intros H. specialize (H x). cbn in H. apply H. lia.
  - cbn in Hs. destruct Hs as (H1 & H2 & H3).
    unfold contain1. cbn [find_first fst snd].
    destruct (Z.leb_spec x b) as [Hxb|Hxb].
    + rewrite andb_true_iff, !negb_true_iff, !Z.ltb_ge. split.
      * intros [Ha Hb] g Hg. rewrite mem_cons. apply orb_true_iff. left. apply mem_iv_true. lia.
      * intros H. split.
        -- destruct (Z.le_gt_cases a x) as [|Hlt]; [assumption|exfalso].
           specialize (H x ltac:(lia)). rewrite mem_cons in H. apply orb_true_iff in H. destruct H as [H|H].
           ++ apply mem_iv_true in H. lia.
           ++ rewrite (sep_mem_false b r x H3) in H; [discriminate|lia].
        -- destruct (Z.le_gt_cases y b) as [|Hlt]; [assumption|exfalso].
           specialize (H b ltac:(lia)). rewrite mem_cons in H. apply orb_true_iff in H. destruct H as [H|H].
           ++ apply mem_iv_true in H. lia.
           ++ rewrite (sep_mem_false b r b H3) in H; [discriminate|lia].
    + specialize (IH b x y H3 Hxy). unfold contain1 in IH. cbn [fst snd] in IH. rewrite IH.
      split; intros H g Hg; specialize (H g Hg).
      * rewrite mem_cons, H. apply orb_true_r.
      * rewrite mem_cons in H. apply orb_true_iff in H. destruct H as [H|H]; [|exact H].
        apply mem_iv_true in H. lia.
Qed.

Definition nonempty_ivs (s : islice) : Prop := forall i, In i s -> fst i < snd i.

Lemma sep_nonempty lo s : sep lo s -> nonempty_ivs s.
Proof.
  revert lo. induction s as [|[a b] r IH]; intros lo Hs i Hi; [destruct Hi|].
  cbn in Hs. destruct Hs as (H1 & H2 & H3). destruct Hi as [<-|Hi]; [exact H2|eapply IH; eauto].
Qed.
Lemma normalized_nonempty s : normalized s -> nonempty_ivs s.
Proof. intros [lo H]. eapply sep_nonempty; eauto. Qed.

Lemma mem_true_iff s g : mem s g = true <-> exists a b, In (a, b) s /\ a <= g < b.
Proof.
  unfold mem. rewrite existsb_exists. split.
  - intros [[a b] [Hi Hm]]. exists a, b. split; [exact Hi|apply mem_iv_true; exact Hm].
  - intros (a & b & Hi & Hm). exists (a, b). split; [exact Hi|apply mem_iv_true; exact Hm].
Qed.

Theorem slice_contain_spec s sub : normalized s -> nonempty_ivs sub ->
  (slice_contain s sub = true <-> forall g, mem sub g = true -> mem s g = true).
Proof.
  intros [lo Hs] Hne. unfold slice_contain. rewrite forallb_forall. split.
  - intros H g Hg. apply mem_true_iff in Hg. destruct Hg as (a & b & Hi & Hg).
    specialize (H (a, b) Hi). eapply contain1_spec in H; eauto. exact (Hne _ Hi).
  - intros H [a b] Hi. eapply contain1_spec; eauto; [exact (Hne _ Hi)|].
    intros g Hg. apply H. apply mem_true_iff. exists a, b. auto.
Qed.

(* ------------------------------------------------------------------- Equal *)
Lemma slice_equal_eq a b : slice_equal a b = true <-> a = b.
Proof.
  revert b. induction a as [|[x y] a IH]; intros [|[x' y'] b]; cbn; try (split; [discriminate|discriminate]); [tauto|].
  unfold iv_eqb; cbn. rewrite !andb_true_iff, !Z.eqb_eq, IH. split.
  - intros [[-> ->] ->]. reflexivity.
  - intros E. inversion E. auto.
Qed.

(* a normalized slice is determined by its members *)
Lemma sep_ext lo s t : sep lo s -> sep lo t -> (forall g, mem s g = mem t g) -> s = t.
Proof.
  revert lo t. induction s as [|[a b] r IH]; intros lo t Hs Ht Hext.
  - destruct t as [|[c d] t']; [reflexivity|exfalso]. cbn in Ht. destruct Ht as (K1 & K2 & K3).
    specialize (Hext c). rewrite mem_cons in Hext. cbn [mem existsb] in Hext.
    assert (mem_iv c (c, d) = true) as E by (apply mem_iv_true; lia). rewrite E in Hext. discriminate.
  - cbn in Hs. destruct Hs as (H1 & H2 & H3).
    destruct t as [|[c d] t'].
    + exfalso. specialize (Hext a). rewrite mem_cons in Hext.
      assert (mem_iv a (a, b) = true) as E by (apply mem_iv_true; lia). rewrite E in Hext. discriminate.
    + cbn in Ht. destruct Ht as (K1 & K2 & K3).
      assert (a = c).
      { destruct (Z.lt_trichotomy a c) as [Hl|[He|Hl]]; [exfalso|exact He|exfalso].
        - specialize (Hext a). rewrite !mem_cons in Hext.
          assert (mem_iv a (a, b) = true) as E by (apply mem_iv_true; lia). rewrite E in Hext. cbn in Hext.
          symmetry in Hext. apply orb_true_iff in Hext. destruct Hext as [F|F].
          + apply mem_iv_true in F. lia.
          + rewrite (sep_mem_false d t' a K3) in F; [discriminate|lia].
        - specialize (Hext c). rewrite !mem_cons in Hext.
          assert (mem_iv c (c, d) = true) as E by (apply mem_iv_true; lia). rewrite E in Hext. rewrite orb_true_l in Hext.
          apply orb_true_iff in Hext. destruct Hext as [F|F].
          + apply mem_iv_true in F. lia.
          + rewrite (sep_mem_false b r c H3) in F; [discriminate|lia]. }
      subst c.
      assert (b = d).
      { destruct (Z.lt_trichotomy b d) as [Hl|[He|Hl]]; [exfalso|exact He|exfalso].
        - specialize (Hext b). rewrite !mem_cons in Hext.
          assert (mem_iv b (a, d) = true) as E by (apply mem_iv_true; lia). rewrite E in Hext. rewrite orb_true_l in Hext.
          apply orb_true_iff in Hext. destruct Hext as [F|F].
          + apply mem_iv_true in F. lia.
          + rewrite (sep_mem_false b r b H3) in F; [discriminate|lia].
        - specialize (Hext d). rewrite !mem_cons in Hext.
          assert (mem_iv d (a, b) = true) as E by (apply mem_iv_true; lia). rewrite E in Hext. rewrite orb_true_l in Hext.
          symmetry in Hext. apply orb_true_iff in Hext. destruct Hext as [F|F].
          + apply mem_iv_true in F. lia.
          + rewrite (sep_mem_false d t' d K3) in F; [discriminate|lia]. }
      subst d. f_equal. apply (IH b); auto.
      intros g. specialize (Hext g). rewrite !mem_cons in Hext.
      destruct (mem_iv g (a, b)) eqn:E; [|exact Hext].
      apply mem_iv_true in E. rewrite (sep_mem_false b r g H3), (sep_mem_false b t' g K3); auto; lia.
Qed.

Lemma normalized_ext s t : normalized s -> normalized t -> (forall g, mem s g = mem t g) -> s = t.
Proof.
  intros [l1 H1] [l2 H2] Hext. apply (sep_ext (Z.min l1 l2)); auto; eapply sep_weaken; eauto; lia.
Qed.

(* ------------------------------------------------------------------- Minus *)
(* pieces strictly separated, starting after lo, all inside (lo, hi] *)
Fixpoint within (lo hi : Z) (p : islice) : Prop :=
  match p with
  | [] => True
  | (a, b) :: r => lo < a /\ a < b /\ b <= hi /\ within b hi r
  end.

Lemma within_app lo hi p q : lo <= hi -> within lo hi p -> sep hi q -> sep lo (p ++ q).
Proof.
  revert lo. induction p as [|[a b] r IH]; intros lo Hle Hw Hq; cbn.
  - eapply sep_weaken; [|exact Hq]. exact Hle.
  - cbn in Hw. destruct Hw as (H1 & H2 & H3 & H4). repeat split; auto.
Qed.

Lemma within_weaken lo lo' hi p : lo' <= lo -> within lo hi p -> within lo' hi p.
Proof. destruct p as [|[a b] r]; cbn; [tauto|]. intros Hl (H1 & H2 & H3 & H4). repeat split; auto; lia. Qed.

Lemma within_app_within lo hi p q : lo <= hi -> within lo hi p -> within hi hi q -> within lo hi (p ++ q).
Proof.
  revert lo. induction p as [|[a b] r IH]; intros lo Hle Hw Hq; cbn.
  - eapply within_weaken; eauto.
  - cbn in Hw. destruct Hw as (H1 & H2 & H3 & H4). repeat split; auto.
Qed.

Ltac split4 := split; [|split; [|split]].

Lemma mem_single g a b : mem [(a, b)] g = true <-> a <= g < b.
Proof. rewrite mem_cons. cbn [mem existsb]. rewrite orb_false_r. apply mem_iv_true. Qed.

Lemma within_pieces_app lo mid hi pieces r :
  lo <= mid -> mid <= hi -> within lo mid pieces -> within mid hi r -> within lo hi (pieces ++ r).
Proof.
  revert lo. induction pieces as [|[a b] q IHq]; intros lo H1 H2 Hp Hr; cbn.
  - eapply within_weaken; eauto.
  - cbn in Hp. destruct Hp as (W1 & W2 & W3 & W4). split4; try lia. apply IHq; auto.
Qed.

Lemma within_hi_weaken lo hi hi' p : hi <= hi' -> within lo hi p -> within lo hi' p.
Proof.
  revert lo. induction p as [|[a b] q IH]; intros lo Hh Hp; cbn; [exact I|].
  cbn in Hp. destruct Hp as (W1 & W2 & W3 & W4). split4; auto; lia.
Qed.

(* the inner loop: pieces = [cur,stop) minus b; the remaining suffix of b agrees
   with b at and above stop *)
Lemma minus_iv_spec b : forall cur stop lob, sep lob b -> cur < stop ->
  forall p rem, minus_iv cur stop b = (p, rem) ->
  (forall lo, lo < cur -> within lo stop p) /\
  (forall g, mem p g = true <-> (cur <= g < stop /\ mem b g = false)) /\
  (exists lob', sep lob' rem) /\
  (forall g, stop <= g -> mem rem g = mem b g).
Proof.
  induction b as [|[bs be] b' IH]; intros cur stop lob Hb Hcs p rem E; cbn [minus_iv] in E.
  - inversion E; subst. split4.
    + intros lo Hlo. cbn. split4; auto; lia.
    + intros g. rewrite mem_single. cbn. tauto.
    + exists 0. exact I.
    + reflexivity.
  - cbn in Hb. destruct Hb as (B1 & B2 & B3).
    destruct (Z.leb_spec be cur) as [Hbc|Hbc].
    + destruct (IH cur stop be B3 Hcs p rem E) as (I1 & I2 & I3 & I4). split4; auto.
      * intros g. rewrite I2, mem_cons, orb_false_iff, mem_iv_false. split; [intros [H1 H2]; split; [exact H1|split; [lia|exact H2]]|tauto].
      * intros g Hg. rewrite mem_cons, I4; auto. replace (mem_iv g (bs, be)) with false; [reflexivity|]. symmetry. apply mem_iv_false. lia.
    + destruct (Z.leb_spec stop bs) as [Hsb|Hsb].
      * inversion E; subst. split4.
        -- intros lo Hlo. cbn. split4; auto; lia.
        -- intros g. rewrite mem_single, mem_cons, orb_false_iff, mem_iv_false. split.
           ++ intros H. split; [exact H|]. split; [lia|]. apply (sep_mem_false be); auto. lia.
           ++ tauto.
        -- exists lob. cbn. auto.
        -- reflexivity.
      * set (pieces := if cur <? bs then [(cur, bs)] else []) in E.
        assert (Hpw : forall lo, lo < cur -> within lo (Z.max cur bs) pieces).
        { intros lo Hlo. unfold pieces. destruct (Z.ltb_spec cur bs); cbn; [split4; auto; lia|exact I]. }
        assert (Hpm : forall g, mem pieces g = true <-> cur <= g < bs).
        { intros g. unfold pieces. destruct (Z.ltb_spec cur bs).
          - apply mem_single.
          - cbn. split; [discriminate|lia]. }
        destruct (Z.ltb_spec be stop) as [Hbe|Hbe].
        -- destruct (minus_iv be stop b') as [r rem'] eqn:Er. inversion E; subst p rem. clear E.
           destruct (IH be stop be B3 Hbe r rem' Er) as (I1 & I2 & I3 & I4). split4.
           ++ intros lo Hlo. apply (within_pieces_app lo (Z.max cur bs) stop); try lia; auto. apply I1. lia.
           ++ intros g. rewrite mem_app, orb_true_iff, Hpm, I2, mem_cons, orb_false_iff, mem_iv_false. split.
              ** intros [H|[H1 H2]].
                 --- split; [lia|]. split; [lia|]. apply (sep_mem_false be); auto. lia.
                 --- split; [lia|]. split; [lia|exact H2].
              ** intros [H1 [H2 H3]]. destruct (Z.lt_ge_cases g bs) as [Hg|Hg]; [left; lia|right; split; [lia|exact H3]].
           ++ exact I3.
           ++ intros g Hg. rewrite mem_cons, I4; auto. replace (mem_iv g (bs, be)) with false; [reflexivity|]. symmetry. apply mem_iv_false. lia.
        -- inversion E; subst p rem. clear E. split4.
           ++ intros lo Hlo. apply (within_hi_weaken lo (Z.max cur bs)); [lia|auto].
           ++ intros g. rewrite Hpm, mem_cons, orb_false_iff, mem_iv_false. split.
              ** intros H. split; [lia|]. split; [lia|]. apply (sep_mem_false be); auto. lia.
              ** intros [H1 [H2 H3]]. lia.
           ++ exists lob. cbn. auto.
           ++ reflexivity.
Qed.

Theorem slice_minus_spec a : forall b lo, sep lo a -> normalized b ->
  sep lo (slice_minus a b) /\ forall g, mem (slice_minus a b) g = mem a g && negb (mem b g).
Proof.
  induction a as [|[s e] a' IH]; intros b lo Ha Hb; cbn [slice_minus].
  - split; [exact I|reflexivity].
  - cbn in Ha. destruct Ha as (A1 & A2 & A3).
    destruct (Z.ltb_spec s e) as [_|Hc]; [|lia].
    destruct (minus_iv s e b) as [p rem] eqn:E.
    destruct Hb as [lob Hb].
    destruct (minus_iv_spec b s e lob Hb A2 p rem E) as (I1 & I2 & I3 & I4).
    destruct (IH rem e A3 I3) as [J1 J2]. split.
    + apply (within_app lo e); [lia|apply I1; exact A1|exact J1].
    + intros g. rewrite mem_app, J2, mem_cons.
      destruct (mem p g) eqn:Ep.
      * apply I2 in Ep. destruct Ep as [Ep1 Ep2]. rewrite Ep2.
        assert (mem_iv g (s, e) = true) as -> by (apply mem_iv_true; exact Ep1). reflexivity.
      * cbn [orb].
        destruct (mem_iv g (s, e)) eqn:Ei.
        -- apply mem_iv_true in Ei. rewrite (sep_mem_false e a' g A3) by lia. cbn.
           destruct (mem b g) eqn:Eb; [reflexivity|].
           assert (mem p g = true) as F by (apply I2; auto). congruence.
        -- cbn [orb]. destruct (mem a' g) eqn:Ea; [|reflexivity]. cbn.
           assert (e <= g).
           { destruct (Z.le_gt_cases e g); [assumption|]. rewrite (sep_mem_false e a' g A3) in Ea; [discriminate|lia]. }
           rewrite I4; auto.
Qed.

Corollary slice_minus_normalized a b : normalized a -> normalized b -> normalized (slice_minus a b).
Proof. intros [lo Ha] Hb. exists lo. apply slice_minus_spec; auto. Qed.

Corollary slice_minus_mem a b g : normalized a -> normalized b ->
  mem (slice_minus a b) g = mem a g && negb (mem b g).
Proof. intros [lo Ha] Hb. apply (slice_minus_spec a b lo); auto. Qed.

Lemma normalized_mem_witness s : normalized s -> s <> [] -> exists g, mem s g = true.
Proof.
  intros [lo H] Hne. destruct s as [|[a b] r]; [congruence|]. cbn in H. exists a.
  rewrite mem_cons. apply orb_true_iff. left. apply mem_iv_true. lia.
Qed.

(* --------------------------------------------------------------- Normalize *)
Lemma insert_iv_spec s : forall x y lo, sep lo s -> x < y -> lo < x ->
  sep lo (insert_iv (x, y) s) /\ forall g, mem (insert_iv (x, y) s) g = mem_iv g (x, y) || mem s g.
Proof.
  induction s as [|[a b] r IH]; intros x y lo Hs Hxy Hlo; cbn [insert_iv].
  - split; [cbn; auto|reflexivity].
  - cbn in Hs. destruct Hs as (S1 & S2 & S3).
    destruct (Z.ltb_spec y a) as [Hya|Hya].
    + split; [cbn; split4; auto; split4; auto|reflexivity].
    + destruct (Z.ltb_spec b x) as [Hbx|Hbx].
      * destruct (IH x y b S3 Hxy Hbx) as [I1 I2]. split; [cbn; auto|].
        intros g. rewrite !mem_cons, I2. destruct (mem_iv g (a, b)), (mem_iv g (x, y)); reflexivity.
      * destruct (IH (Z.min x a) (Z.max y b) lo) as [I1 I2]; [eapply sep_weaken; [|exact S3]; lia|lia|lia|].
        split; [exact I1|]. intros g. rewrite I2, mem_cons. 
        destruct (mem_iv g (Z.min x a, Z.max y b)) eqn:E1, (mem_iv g (x, y)) eqn:E2, (mem_iv g (a, b)) eqn:E3; cbn; try reflexivity;
          try apply mem_iv_true in E1; try apply mem_iv_true in E2; try apply mem_iv_true in E3;
          try apply mem_iv_false in E1; try apply mem_iv_false in E2; try apply mem_iv_false in E3; lia.
Qed.

Theorem normalize_spec s : forall lo, (forall i, In i s -> lo < fst i < snd i) ->
  sep lo (normalize s) /\ forall g, mem (normalize s) g = mem s g.
Proof.
  induction s as [|[x y] r IH]; intros lo H; cbn [normalize fold_right].
  - split; [exact I|reflexivity].
  - destruct (IH lo) as [I1 I2]; [intros i Hi; apply H; right; exact Hi|].
    pose proof (H (x, y) (or_introl eq_refl)) as Hxy. cbn in Hxy.
    destruct (insert_iv_spec (normalize r) x y lo I1) as [J1 J2]; [lia|lia|].
    split; [exact J1|]. intros g. fold (normalize r). rewrite J2, I2. reflexivity.
Qed.
