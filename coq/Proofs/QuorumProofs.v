(* Closed-form arithmetic about the GENERATED definitions (C12). *)
From Coq Require Import ZArith Bool List Lia.
From Mysync Require Import Generated.SwitchHelperGen.
Import ListNotations.
Open Scope Z_scope.
Ltac Zify.zify_post_hook ::= Z.to_euclidean_division_equations.

Section Arith.
Variable sh : switch_helper.
Variable n : Z.
Hypothesis Hn : 0 <= n.
Hypothesis Hw : 0 <= sh_w sh.
Let r := required_wsc sh n.
Let q := failover_quorum sh n.

Lemma required_nonneg : 0 <= r.
Proof. unfold r, required_wsc. cbv zeta. lia. Qed.

(* never more acknowledgements than replicas in the list (the list holds the
   master, so it has max(n-1,0) replicas) *)
Lemma required_le_replicas : r <= Z.max (n - 1) 0.
Proof. unfold r, required_wsc. cbv zeta. lia. Qed.

Lemma required_zero_iff : r = 0 <-> (n <= 1 \/ sh_w sh = 0).
Proof. unfold r, required_wsc. cbv zeta. lia. Qed.

Lemma quorum_ge_1 : 1 <= q.
Proof. unfold q, failover_quorum. cbv zeta. lia. Qed.

Lemma quorum_plus_required : q + r > Z.max (n - 1) 0.
Proof. unfold q, r, failover_quorum, required_wsc. cbv zeta. lia. Qed.

Lemma quorum_le_list : 1 <= n -> q <= n.
Proof. unfold q, failover_quorum, required_wsc. cbv zeta. lia. Qed.
End Arith.

(* pigeonhole: two duplicate-free sub-lists of a list whose sizes add up to more
   than the list's size share a member *)
Section Pigeon.
Context {A : Type}.
Hypothesis eq_dec : forall x y : A, {x = y} + {x <> y}.

Lemma common_or_disjoint (F B : list A) :
  (exists x, In x F /\ In x B) \/ (forall x, In x F -> In x B -> False).
Proof.
  induction F as [|a F IH].
  - right. intros x [].
  - destruct (in_dec eq_dec a B) as [Hin|Hnin].
    + left. exists a. split; [left; reflexivity|exact Hin].
    + destruct IH as [[x [Hx Hy]]|Hd].
      * left. exists x. split; [right; exact Hx|exact Hy].
      * right. intros x [Hx|Hx] Hy; [subst; auto|eauto].
Qed.
Lemma disjoint_NoDup_app (F B : list A) :
  NoDup F -> NoDup B -> (forall x, In x F -> In x B -> False) -> NoDup (F ++ B).
Proof.
  induction F as [|a F IH]; cbn; intros HF HB Hd; [exact HB|].
  inversion HF as [|? ? Hna HF']; subst. constructor.
  - intro Hin. apply in_app_or in Hin. destruct Hin as [Hin|Hin]; [auto|]. eapply Hd; eauto.
  - apply IH; auto. intros x Hx Hy. eapply Hd; eauto.
Qed.

Lemma pigeonhole (R F B : list A) :
  NoDup F -> NoDup B -> incl F R -> incl B R ->
  (length F + length B > length R)%nat ->
  exists x, In x F /\ In x B.
Proof.
  intros HF HB HiF HiB Hlen.
  destruct (common_or_disjoint F B) as [H|H]; [exact H|].
  exfalso.
  assert (Hnd : NoDup (F ++ B)) by (apply disjoint_NoDup_app; auto; intros x Hx Hy; apply (H x); auto).
  assert (Hincl : incl (F ++ B) R) by (apply incl_app; auto).
  pose proof (NoDup_incl_length Hnd Hincl) as Hl. rewrite app_length in Hl. lia.
Qed.
End Pigeon.

Lemma quorum_intersects :
  forall (host : Type) (host_eq_dec : forall x y : host, {x = y} + {x <> y})
         sh (replicas F Ack : list host),
  0 <= sh_w sh ->
  let n := Z.of_nat (S (length replicas)) in
  NoDup F -> NoDup Ack -> incl F replicas -> incl Ack replicas ->
  failover_quorum sh n <= Z.of_nat (length F) ->
  0 < required_wsc sh n <= Z.of_nat (length Ack) ->
  exists h, In h F /\ In h Ack.
Proof.
  intros host dec sh replicas F Ack Hw n HF HA HiF HiA Hq Hr.
  apply (pigeonhole dec replicas F Ack HF HA HiF HiA).
  assert (Hn : 0 <= n) by (unfold n; lia).
  pose proof (quorum_plus_required sh n Hn Hw) as Hs.
  unfold n in *. lia.
Qed.

Lemma check_semisync sh n p : sh_semisync sh = true ->
  (check_quorum sh n p = true <-> failover_quorum sh n <= p).
Proof.
  intros Hs. unfold check_quorum. rewrite Hs. cbv zeta.
  destruct (Z.ltb_spec p (failover_quorum sh n)); split; intros; try lia; try discriminate; reflexivity.
Qed.

Lemma check_async sh n p : sh_semisync sh = false -> 0 <= p ->
  (check_quorum sh n p = true <-> 1 <= p).
Proof.
  intros Hs Hp. unfold check_quorum. rewrite Hs.
  destruct (Z.eqb_spec p 0); split; intros; try lia; try discriminate; reflexivity.
Qed.

Lemma required_bounds sh n : 0 <= n -> 0 <= sh_w sh -> 0 <= required_wsc sh n <= Z.max (n - 1) 0.
Proof. intros Hn Hw. unfold required_wsc. cbv zeta. lia. Qed.
Lemma required_zero_iff' sh n : 0 <= n -> 0 <= sh_w sh -> (required_wsc sh n = 0 <-> (n <= 1 \/ sh_w sh = 0)).
Proof. intros Hn Hw. unfold required_wsc. cbv zeta. lia. Qed.
Lemma quorum_ge_1' sh n : 0 <= n -> 0 <= sh_w sh -> 1 <= failover_quorum sh n.
Proof. intros Hn Hw. unfold failover_quorum, required_wsc. cbv zeta. lia. Qed.
Lemma quorum_plus_required' sh n : 0 <= n -> 0 <= sh_w sh ->
  failover_quorum sh n + required_wsc sh n > Z.max (n - 1) 0.
Proof. intros Hn Hw. unfold failover_quorum, required_wsc. cbv zeta. lia. Qed.
