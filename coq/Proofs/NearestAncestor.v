(* findBestStreamFrom, "otherwise the nearest healthy ancestor along the configured chain": once the walk has left the
   replica (the path holds at least two hosts: the ancestor being looked at and, last, the replica), an unhealthy
   configured source that is not yet on the path is skipped (the walk goes on from it), a healthy one is the answer,
   and a source that is already on the path (a cycle, anywhere in the chain) or not registered ends the walk at the
   master. *)
From Coq Require Import ZArith NArith Bool List.
From Mysync Require Import Gtid.Interval Gtid.GtidSet Base.Prog Base.ProgFacts Base.Config Procs.NodeOps Procs.ActiveNodes Procs.Switchover Procs.Repair Proofs.RepairProofs.
Open Scope Z_scope.
Import ListNotations.

Section Walk.
Variables (cfg : config) (env : repair_env) (topo : list (host * option host)) (self : host).
Variables (fuel : nat) (x y : host) (rest : list host) (sf : host).
Hypothesis Hcfg : assoc x topo = Some (Some sf).

Lemma walk_skips_unhealthy cand : mem_host sf (x :: y :: rest) = false ->
  assoc sf (re_state env) = Some cand -> source_healthy cfg cand = false ->
  find_best_stream_from (S fuel) cfg env topo self (x :: y :: rest) =
  find_best_stream_from fuel cfg env topo self (sf :: x :: y :: rest).
Proof.
  intros Hm Hs Hh. cbn [find_best_stream_from]. rewrite Hcfg, Hm, Hs.
  unfold source_healthy in Hh. rewrite Hh. reflexivity.
Qed.

Lemma walk_stops_at_healthy cand : mem_host sf (x :: y :: rest) = false ->
  assoc sf (re_state env) = Some cand -> source_healthy cfg cand = true ->
  find_best_stream_from (S fuel) cfg env topo self (x :: y :: rest) = Ret sf.
Proof.
  intros Hm Hs Hh. cbn [find_best_stream_from]. rewrite Hcfg, Hm, Hs.
  unfold source_healthy in Hh. rewrite Hh. reflexivity.
Qed.

Lemma walk_cycle_is_master : mem_host sf (x :: y :: rest) = true ->
  find_best_stream_from (S fuel) cfg env topo self (x :: y :: rest) = Ret (re_master env).
Proof. intros Hm. cbn [find_best_stream_from]. rewrite Hcfg, Hm. reflexivity. Qed.

Lemma walk_unregistered_is_master : mem_host sf (x :: y :: rest) = false -> assoc sf (re_state env) = None ->
  find_best_stream_from (S fuel) cfg env topo self (x :: y :: rest) = Ret (re_master env).
Proof. intros Hm Hs. cbn [find_best_stream_from]. rewrite Hcfg, Hm, Hs. reflexivity. Qed.
End Walk.

(* the first step, from the replica itself: an unhealthy configured source that the replica does not stream from is
   skipped *)
Lemma first_step_skips_unhealthy cfg env topo self fuel sf cand me :
  assoc self topo = Some (Some sf) -> mem_host sf [self] = false ->
  assoc self (re_state env) = Some me ->
  ns_repl_running me && match ns_slave me with Some rs => N.eqb (rs_source rs) sf | None => false end = false ->
  assoc sf (re_state env) = Some cand -> source_healthy cfg cand = false ->
  find_best_stream_from (S fuel) cfg env topo self [self] =
  find_best_stream_from fuel cfg env topo self [sf; self].
Proof.
  intros Ht Hm Hme Hstr Hs Hh. cbn [find_best_stream_from]. rewrite Ht, Hm, Hme, Hstr, Hs.
  unfold source_healthy in Hh. rewrite Hh. reflexivity.
Qed.
