(* [post Q R p]: every crash leaf p can reach lies at a site satisfying Q and every value p can
   return satisfies R - for every response of every call.  Unlike [panics_in] / [rets] the join of
   a parallel section is NOT handed arbitrary results: only lists that carry exactly one result per
   branch, each a value that branch can return.  That is what makes "the state map has an entry
   for every registered host" usable after getClusterStateFromDB / FromDcs. *)
From Coq Require Import ZArith NArith Bool List Lia Permutation.
From Mysync Require Import Gtid.Interval Gtid.GtidSet Base.Prog Base.ProgFacts.
Import ListNotations.

Definition can_ret {A} (p : prog A) (a : A) : Prop := exists tr, runs p tr (Done a).

Fixpoint post {A} (Q : site -> Prop) (R : A -> Prop) (p : prog A) : Prop :=
  match p with
  | Ret a => R a
  | Panic s => Q s
  | Do s c k => forall r, post Q R (k r)
  | Par s bs k =>
      (fix go (bs : list (host * prog resp)) : Prop :=
         match bs with [] => True | (_, b) :: r => post Q (fun _ => True) b /\ go r end) bs
      /\ forall rs, Permutation (map fst bs) (map fst rs) ->
                    (forall h r, In (h, r) rs -> exists b, In (h, b) bs /\ can_ret b r) ->
                    post Q R (k rs)
  end.

(* the join sees one result per branch *)
Lemma runs_par_results_keys {A} s (bs : list (host * prog resp)) (k : list (host * resp) -> prog A) tr o :
  runs (Par s bs k) tr o ->
  (exists rs tk tpar,
     Permutation (map fst bs) (map fst rs) /\
     (forall h r, In (h, r) rs -> exists b, In (h, b) bs /\ can_ret b r) /\
     tr = tpar ++ tk /\ runs (k rs) tk o) \/
  (exists s' h b tb, o = Panicked s' /\ In (h, b) bs /\ runs b tb (Panicked s')).
Proof.
  cbn [runs]. intros H.
  assert (G : forall (bs0 done : list (host * prog resp)) acc_tr acc_rs,
    bs = rev done ++ bs0 ->
    map fst (rev done) = map fst (rev acc_rs) ->
    (forall h r, In (h, r) acc_rs -> exists b, In (h, b) bs /\ can_ret b r) ->
    (fix branches (bs : list (host * prog resp)) (acc_tr : list trace) (acc_rs : list (host * resp)) : Prop :=
       match bs with
       | [] => exists tpar tk rs, interleave (rev acc_tr) tpar /\ tr = tpar ++ tk /\ Permutation (rev acc_rs) rs /\ runs (k rs) tk o
       | (h, b) :: bs' =>
           exists tb ob, runs b tb ob /\
             match ob with
             | Done r => branches bs' (tb :: acc_tr) ((h, r) :: acc_rs)
             | Panicked s' => o = Panicked s' /\ exists tpar, interleave (rev (tb :: acc_tr)) tpar /\ tr = tpar
             end
       end) bs0 acc_tr acc_rs ->
    (exists rs tk tpar,
       Permutation (map fst bs) (map fst rs) /\
       (forall h r, In (h, r) rs -> exists b, In (h, b) bs /\ can_ret b r) /\
       tr = tpar ++ tk /\ runs (k rs) tk o) \/
    (exists s' h b tb, o = Panicked s' /\ In (h, b) bs /\ runs b tb (Panicked s'))).
  { induction bs0 as [|[h b] bs' IHb]; intros done acc_tr acc_rs Ebs Ekeys Hacc Hrun.
    - destruct Hrun as (tpar & tk & rs & _ & E & Hp & Hk). left. exists rs, tk, tpar.
      split; [|split; [|split; assumption]].
      + rewrite Ebs, app_nil_r, Ekeys. apply Permutation_map. exact Hp.
      + intros h r Hin. apply Hacc. apply in_rev. eapply Permutation_in; [apply Permutation_sym; exact Hp|exact Hin].
    - destruct Hrun as (tb & ob & Hrb & Hrest). destruct ob as [r|s'].
      + apply (IHb ((h, b) :: done) (tb :: acc_tr) ((h, r) :: acc_rs)).
        * rewrite Ebs. cbn [rev]. rewrite <- app_assoc. reflexivity.
        * cbn [rev]. rewrite !map_app, Ekeys. reflexivity.
        * intros h0 r0 [E|Hin]; [|apply Hacc; exact Hin]. inversion E; subst h0 r0. exists b. split; [|exists tb; exact Hrb].
          rewrite Ebs. apply in_or_app. right. left. reflexivity.
        * exact Hrest.
      + destruct Hrest as [E _]. right. exists s', h, b, tb. split; [exact E|]. split; [|exact Hrb].
        rewrite Ebs. apply in_or_app. right. left. reflexivity. }
  apply (G bs [] [] []); [reflexivity|reflexivity|intros h r []|exact H].
Qed.

Fixpoint post_sound {A} (Q : site -> Prop) (R : A -> Prop) (p : prog A) {struct p} :
  post Q R p -> forall tr o, runs p tr o -> match o with Done a => R a | Panicked s => Q s end.
Proof.
  destruct p as [a0|s|s c k|s bs k]; cbn [post]; intros H tr o Hr.
  - cbn in Hr. destruct Hr as [_ ->]. exact H.
  - cbn in Hr. destruct Hr as [_ ->]. exact H.
  - cbn [runs] in Hr. destruct tr as [|e tr']; [destruct Hr|]. destruct Hr as (_ & _ & Hr). exact (post_sound _ Q R (k (ev_resp e)) (H _) _ _ Hr).
  - destruct H as [Hbs Hk].
    destruct (runs_par_results_keys _ _ _ _ _ Hr) as [(rs & tk & tpar & Hperm & Hres & _ & Hrk)|(s' & h & b & tb & -> & Hin & Hrb)].
    + exact (post_sound _ Q R (k rs) (Hk rs Hperm Hres) _ _ Hrk).
    + revert Hbs Hin. clear -post_sound Hrb. induction bs as [|[h0 b0] r IH]; intros Hgo Hin; [destruct Hin|].
      destruct Hgo as [H1 H2]. destruct Hin as [E|Hin]; [|exact (IH H2 Hin)].
      injection E as Eh Eb. subst h b. exact (post_sound _ Q (fun _ => True) b0 H1 _ _ Hrb).
Qed.

Corollary post_no_panic {A} (R : A -> Prop) (p : prog A) :
  post (fun _ => False) R p -> forall tr o, runs p tr o -> exists a, o = Done a /\ R a.
Proof.
  intros H tr o Hr. pose proof (post_sound _ _ _ H _ _ Hr) as G. destruct o as [a|s]; [exists a; split; [reflexivity|exact G]|destruct G].
Qed.

Lemma post_bind {A B} Q (R' : A -> Prop) (R : B -> Prop) (p : prog A) (f : A -> prog B) :
  post Q R' p -> (forall a, R' a -> post Q R (f a)) -> post Q R (bind p f).
Proof.
  induction p as [a0|s|s c k IH|s bs k IH] using prog_ind_k; intros Hp Hf; cbn [bind post] in *; auto.
  destruct Hp as [Hb Hk]. split; [exact Hb|]. intros rs Hperm Hres. apply IH; [apply Hk; assumption|exact Hf].
Qed.

Fixpoint panics_in_impl {A} (Q Q' : site -> Prop) (HQ : forall s, Q s -> Q' s) (p : prog A) {struct p} : panics_in Q p -> panics_in Q' p.
Proof.
  destruct p as [a|s|s c k|s bs k]; cbn [panics_in]; intros H.
  - exact I.
  - exact (HQ _ H).
  - intros r. apply (panics_in_impl _ Q Q' HQ). apply H.
  - destruct H as [Hb Hk]. split; [|intros rs; apply (panics_in_impl _ Q Q' HQ); apply Hk].
    revert Hb. induction bs as [|[h b] r IH]; [intros; exact I|]. intros [H1 H2]. split; [apply (panics_in_impl _ Q Q' HQ); exact H1|apply IH; exact H2].
Qed.

Fixpoint post_conseq {A} (Q Q' : site -> Prop) (R R' : A -> Prop) (HQ : forall s, Q s -> Q' s) (HR : forall a, R a -> R' a)
  (p : prog A) {struct p} : post Q R p -> post Q' R' p.
Proof.
  destruct p as [a0|s|s c k|s bs k]; cbn [post]; intros H.
  - exact (HR _ H).
  - exact (HQ _ H).
  - intros r. exact (post_conseq _ Q Q' R R' HQ HR (k r) (H r)).
  - destruct H as [Hb Hk]. split.
    + clear Hk. induction bs as [|[h b] r IHb]; [exact I|]. destruct Hb as [H1 H2]. split; [|exact (IHb H2)].
      exact (post_conseq _ Q Q' (fun _ => True) (fun _ => True) HQ (fun _ t => t) b H1).
    + intros rs Hp Hres. exact (post_conseq _ Q Q' R R' HQ HR (k rs) (Hk rs Hp Hres)).
Qed.

(* the syntactic judgements are special cases *)
Fixpoint panics_in_post {A} Q (p : prog A) {struct p} : panics_in Q p -> post Q (fun _ => True) p.
Proof.
  destruct p as [a0|s|s c k|s bs k]; cbn [panics_in post]; intros H.
  - exact I.
  - exact H.
  - intros r. exact (panics_in_post _ Q (k r) (H r)).
  - destruct H as [Hb Hk]. split.
    + clear Hk. induction bs as [|[h b] r IHb]; [exact I|]. destruct Hb as [H1 H2]. split; [exact (panics_in_post _ Q b H1)|exact (IHb H2)].
    + intros rs _ _. exact (panics_in_post _ Q (k rs) (Hk rs)).
Qed.

Lemma post_branches_of_panics Q (bs : list (host * prog resp)) :
  (fix go (bs : list (host * prog resp)) : Prop :=
     match bs with [] => True | (_, b) :: r => panics_in Q b /\ go r end) bs ->
  (fix go (bs : list (host * prog resp)) : Prop :=
     match bs with [] => True | (_, b) :: r => post Q (fun _ => True) b /\ go r end) bs.
Proof.
  induction bs as [|[h b] r IH]; [intros; exact I|]. intros [H1 H2]. split; [exact (panics_in_post Q b H1)|exact (IH H2)].
Qed.

Lemma post_panics_rets {A} Q (R : A -> Prop) (p : prog A) : panics_in Q p -> rets R p -> post Q R p.
Proof.
  induction p as [a0|s|s c k IH|s bs k IH] using prog_ind_k; cbn [panics_in rets post]; intros H1 H2; auto.
  destruct H1 as [Hb Hk]. split; [exact (post_branches_of_panics Q bs Hb)|]. intros rs _ _. apply IH; [apply Hk|apply H2].
Qed.

Lemma post_weaken {A} Q (R R' : A -> Prop) (p : prog A) : (forall a, R a -> R' a) -> post Q R p -> post Q R' p.
Proof.
  intros HR. induction p as [a0|s|s c k IH|s bs k IH] using prog_ind_k; cbn [post]; intros H; auto.
  destruct H as [Hb Hk]. split; [exact Hb|]. intros rs Hp Hres. apply IH. apply Hk; assumption.
Qed.

Lemma post_and {A} Q (R1 R2 : A -> Prop) (p : prog A) : post Q R1 p -> post Q R2 p -> post Q (fun a => R1 a /\ R2 a) p.
Proof.
  induction p as [a0|s|s c k IH|s bs k IH] using prog_ind_k; cbn [post]; intros H1 H2; auto.
  destruct H1 as [Hb Hk]. destruct H2 as [_ Hk2]. split; [exact Hb|]. intros rs Hp Hres. apply IH; [apply Hk|apply Hk2]; assumption.
Qed.

Lemma post_forM_ {A} Q (l : list A) (f : A -> prog unit) :
  (forall a, In a l -> post Q (fun _ => True) (f a)) -> post Q (fun _ => True) (forM_ l f).
Proof.
  induction l as [|x r IH]; intros H; cbn [forM_]; [exact I|].
  eapply post_bind; [apply H; left; reflexivity|]. intros _ _. apply IH. intros a Ha. apply H. right. exact Ha.
Qed.

(* can_ret through rets: what a branch can return satisfies what [rets] promises *)
Lemma can_ret_rets {A} (R : A -> Prop) (p : prog A) a : rets R p -> can_ret p a -> R a.
Proof. intros H [tr Hr]. exact (rets_sound R p H tr a Hr). Qed.
