(* A weakest-precondition calculus over a deterministic monitor of the calls of a
   run: [wp st p Q] says that from monitor state st every call p issues is allowed
   (okc) and, if p returns a, Q holds of the monitor state reached and a.
   [safe] of ProgFacts is the special case Q = True.  Calls inside Par branches
   must not move the monitor (neutral). *)
From Coq Require Import ZArith NArith Bool List Lia Permutation.
From Mysync Require Import Gtid.Interval Gtid.GtidSet Base.Prog Base.ProgFacts.
Import ListNotations.

Section WP.
Variable S : Type.
Variable step : S -> call -> resp -> S.
Variable okc : S -> call -> Prop.

Definition fold_steps (st : S) (tr : trace) : S := fold_left (fun st e => step st (ev_call e) (ev_resp e)) tr st.

Fixpoint wp {A} (st : S) (p : prog A) (Q : S -> A -> Prop) : Prop :=
  match p with
  | Ret a => Q st a
  | Panic _ => True
  | Do s c k => okc st c /\ forall r, wp (step st c r) (k r) Q
  | Par s bs k =>
      (fix go (bs : list (host * prog resp)) : Prop :=
         match bs with [] => True | (_, b) :: r => allcalls (fun _ c => okc st c /\ neutral S step c) b /\ go r end) bs
      /\ forall rs, wp st (k rs) Q
  end.

Lemma fold_steps_app st t1 t2 : fold_steps st (t1 ++ t2) = fold_steps (fold_steps st t1) t2.
Proof. unfold fold_steps. apply fold_left_app. Qed.

Lemma fold_steps_neutral st t : Forall (fun e => okc st (ev_call e) /\ neutral S step (ev_call e)) t -> fold_steps st t = st.
Proof.
  induction t as [|e r IH]; intros H; [reflexivity|]. inversion H as [|? ? [_ Hn] Hr]; subst.
  cbn. rewrite Hn. apply IH. exact Hr.
Qed.

Fixpoint wp_sound {A} (p : prog A) {struct p} :
  forall st Q, wp st p Q -> forall tr o, runs p tr o ->
    trace_ok S step okc st tr /\ match o with Done a => Q (fold_steps st tr) a | Panicked _ => True end.
Proof.
  destruct p as [a|s|s c k|s bs k]; cbn [wp runs]; intros st Q Hs tr o Hr.
  - destruct Hr as [-> ->]. split; [exact I|exact Hs].
  - destruct Hr as [-> ->]. split; exact I.
  - destruct Hs as [Hc Hk]. destruct tr as [|e tr']; [destruct Hr|].
    destruct Hr as (_ & Hcall & Hrest). cbn [trace_ok]. rewrite Hcall.
    destruct (wp_sound _ (k (ev_resp e)) _ _ (Hk (ev_resp e)) _ _ Hrest) as [T1 T2].
    split; [split; [exact Hc|exact T1]|]. unfold fold_steps in *. cbn [fold_left]. rewrite Hcall. exact T2.
  - destruct Hs as [Hbs Hk].
    assert (G : forall (bs0 : list (host * prog resp)) acc_tr acc_rs,
      (fix go (bs : list (host * prog resp)) : Prop :=
         match bs with [] => True | (_, b) :: r => allcalls (fun _ c => okc st c /\ neutral S step c) b /\ go r end) bs0 ->
      Forall (Forall (fun e => okc st (ev_call e) /\ neutral S step (ev_call e))) acc_tr ->
      (fix branches (bs : list (host * prog resp)) (acc_tr : list trace) (acc_rs : list (host * resp)) : Prop :=
         match bs with
         | [] => exists tpar tk rs, interleave (rev acc_tr) tpar /\ tr = tpar ++ tk /\ Permutation (rev acc_rs) rs /\ runs (k rs) tk o
         | (h, b) :: bs' =>
             exists tb ob, runs b tb ob /\
               match ob with
               | Done r => branches bs' (tb :: acc_tr) ((h, r) :: acc_rs)
               | Panicked s' => o = Panicked s' /\ exists tpar, interleave (rev (tb :: acc_tr)) tpar /\ tr = tpar
               end
         end) bs0 acc_tr acc_rs ->
      trace_ok S step okc st tr /\ match o with Done a => Q (fold_steps st tr) a | Panicked _ => True end).
    { induction bs0 as [|[h b] bs' IHb]; intros acc_tr acc_rs Hgo Hacc Hrun.
      - destruct Hrun as (tpar & tk & rs & Hi & -> & _ & Hrk).
        assert (Forall (fun e => okc st (ev_call e) /\ neutral S step (ev_call e)) tpar) as Hn.
        { eapply interleave_Forall; eauto. apply Forall_rev. exact Hacc. }
        destruct (wp_sound _ (k rs) _ _ (Hk rs) _ _ Hrk) as [T1 T2]. split.
        + apply trace_ok_neutral_app; assumption.
        + rewrite fold_steps_app, (fold_steps_neutral _ _ Hn). exact T2.
      - destruct Hgo as [Hb Hgo]. destruct Hrun as (tb & ob & Hrb & Hrest).
        assert (Forall (fun e => okc st (ev_call e) /\ neutral S step (ev_call e)) tb) as Htb.
        { pose proof (allcalls_sound _ b Hb tb ob Hrb) as F. eapply Forall_impl; [|exact F]. intros e He. exact He. }
        destruct ob as [r|s'].
        + apply (IHb (tb :: acc_tr) ((h, r) :: acc_rs)); [exact Hgo|constructor; auto|exact Hrest].
        + destruct Hrest as (-> & tpar & Hi & ->). split; [|exact I]. rewrite <- (app_nil_r tpar). apply trace_ok_neutral_app; [|exact I].
          eapply interleave_Forall; eauto. apply Forall_rev. constructor; auto. }
    eapply G; eauto.
Qed.

Lemma wp_conseq {A} (p : prog A) : forall st (Q Q' : S -> A -> Prop),
  (forall st' a, Q st' a -> Q' st' a) -> wp st p Q -> wp st p Q'.
Proof.
  induction p as [a|s|s c k IH|s bs k IH] using prog_ind_k; intros st Q Q' HQ Hp; cbn in *; auto.
  - destruct Hp as [Hc Hk]. split; eauto.
  - destruct Hp as [Hb Hk]. split; eauto.
Qed.

Lemma wp_bind {A B} (p : prog A) (f : A -> prog B) : forall st (Q : S -> B -> Prop),
  wp st p (fun st' a => wp st' (f a) Q) -> wp st (bind p f) Q.
Proof.
  induction p as [a|s|s c k IH|s bs k IH] using prog_ind_k; intros st Q Hp; cbn in *; auto.
  - destruct Hp as [Hc Hk]. split; auto.
  - destruct Hp as [Hb Hk]. split; auto.
Qed.

(* a sub-program whose calls are allowed in st and do not move the monitor *)
Lemma wp_neutral {A} (p : prog A) : forall st (Q : S -> A -> Prop),
  allcalls (fun _ c => okc st c /\ neutral S step c) p -> (forall a, Q st a) -> wp st p Q.
Proof.
  induction p as [a|s|s c k IH|s bs k IH] using prog_ind_k; intros st Q Hp HQ; cbn in *; auto.
  - destruct Hp as [[Hc Hn] Hk]. split; [exact Hc|]. intros r. rewrite Hn. apply IH; auto.
  - destruct Hp as [Hb Hk]. split; [exact Hb|]. intros rs. apply IH; auto.
Qed.

Lemma wp_safe {A} (p : prog A) : forall st Q, wp st p Q -> safe S step okc st p.
Proof.
  induction p as [a|s|s c k IH|s bs k IH] using prog_ind_k; intros st Q Hp; cbn in *; auto.
  - destruct Hp as [Hc Hk]. split; eauto.
  - destruct Hp as [Hb Hk]. split; eauto.
Qed.
End WP.

(* a process can die between any two calls: what a monitored-safety theorem says of a run it says of
   every prefix of the run *)
Section Prefix.
Variable S : Type.
Variable step : S -> call -> resp -> S.
Variable okc : S -> call -> Prop.
Lemma trace_ok_firstn k : forall st tr, trace_ok S step okc st tr -> trace_ok S step okc st (firstn k tr).
Proof.
  induction k as [|k IH]; intros st tr H; [exact I|]. destruct tr as [|e r]; [exact I|].
  cbn [firstn trace_ok] in *. destruct H as [H1 H2]. split; [exact H1|apply IH; exact H2].
Qed.
Theorem safe_on_every_crash_prefix {A} (p : prog A) st tr o k :
  safe S step okc st p -> runs p tr o -> trace_ok S step okc st (firstn k tr).
Proof. intros Hs Hr. apply trace_ok_firstn. exact (safe_sound S step okc p st Hs tr o Hr). Qed.
End Prefix.

Lemma Forall_firstn {X} (P : X -> Prop) k : forall l, Forall P l -> Forall P (firstn k l).
Proof. induction k as [|k IH]; intros l H; [constructor|]. destruct l; [constructor|]. inversion H; subst. cbn. constructor; auto. Qed.
