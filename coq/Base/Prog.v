(* Programs over external calls: the shape in which every mysync procedure that
   talks to MySQL / the coordination service / files / the clock is modelled.

   [runs p tr a]  - oracle semantics: every call may receive ANY response; a
   theorem "forall tr a, runs p tr a -> Good tr" therefore covers every
   combination of failing, lying or slow calls, and every crash point is a
   prefix of such a trace ([prefix_runs]).  Both [runs] and [safe] are defined by
   structural recursion into Prop, so unfolding them is symbolic execution and
   no dependent inversion (hence no axiom) is ever needed. *)
From Coq Require Import ZArith NArith Bool List Permutation.
From Mysync Require Import Gtid.Interval Gtid.GtidSet.
Import ListNotations.
Open Scope Z_scope.

Definition host := N.

Inductive err :=
| EDeadline            (* context deadline exceeded *)
| ELockWait            (* MySQL 1205 lock wait timeout *)
| EConn                (* connection refused / closed / any transport error *)
| EMysql (n : Z)       (* other MySQL errno *)
| ENotFound | EExists | EMalformed   (* coordination service *)
| EOther.

(* ---- SQL statements of internal/mysql/queries.go that mysync issues -------- *)
Inductive stmt :=
| SPing | SIsReadOnly | SIsOffline | SShowReplica | SGtidExecuted | SSemiStatus | SReplSettings
| SUuid | SStartupTime | SBinlogs | SWaitingAck | SProcessIds | SListEvents
| SSetRO (super : bool) | SSetWritable | SSetOffline | SSetOnline
| SStopIO | SStartIO | SStopSQL | SStartSQL | SStopRepl | SStartRepl | SResetReplAll
| SChangeSource (src : host)
| SSemiSetMaster | SSemiSetSlave | SSemiDisable | SSetWaitCount (c : Z)
| SSetFlush (v : Z) | SSetSyncBinlog (v : Z) | SKill (id : Z) | SEnableEvent
| SReplMonDelay | SOtherStmt (code : Z)
| SRefused.   (* transcript only: the connection attempt was refused, whatever the statement was *)

Record repl_status := {
  rs_source : host; rs_io : bool; rs_sql : bool;
  rs_io_errno : Z; rs_sql_errno : Z;
  rs_lag : option Z;                 (* Seconds_Behind_Source, None = NULL *)
  rs_executed : gtidset; rs_retrieved : gtidset;
  rs_file : N; rs_pos : Z }.

(* ---- coordination-service paths and decoded values ------------------------ *)
Inductive dpath :=
| PMaster | PActiveNodes | PSwitch | PLastSwitch | PLastRejected | PMaintenance
| PRecoveryDir | PRecovery (h : host) | PHealth (h : host)
| PHaNodes | PHaNode (h : host) | PCascadeNodes | PCascadeNode (h : host)
| PLowSpace | PLastShutdown | PResetupStatus (h : host)
| POptNodes | POptNode (h : host) | PTiming (n : N) | POther (code : Z).

Inductive sw_type := SwSwitchover | SwFailover.
Inductive sw_cause := CauseManual | CauseWorker | CauseAuto.
Record switch_rec := {
  sw_from : option host; sw_to : option host; sw_cause_ : sw_cause; sw_kind : sw_type;
  sw_master_transition : bool;
  sw_run_count : Z; sw_initiated_at : Z;          (* ns *)
  sw_started : bool; sw_started_at : Z;
  sw_result : option (bool * Z) }.                (* (ok, finished_at) *)
Record maint_rec := { mt_paused : bool; mt_should_leave : bool; mt_light : bool }.

Inductive dval :=
| VHost (h : host) | VHosts (l : list host) | VSwitch (s : switch_rec) | VMaint (m : maint_rec)
| VBool (b : bool) | VTime (t : Z) | VPriority (p : Z) | VStreamFrom (o : option host)
| VUnit | VZ (z : Z) | VOpt (enabled : bool) | VResetup (status : bool) (update_time : Z) | VOpaque (code : Z).

Inductive call :=
| Sql (h : host) (s : stmt)
| DcsGet (p : dpath) | DcsSet (p : dpath) (v : dval) | DcsCreate (p : dpath) (v : dval)
| DcsDelete (p : dpath) | DcsChildren (p : dpath) | DcsSetEph (p : dpath) (v : dval)
| LockAcquire | LockRelease | DcsConnected
| Now | Sleep (d : Z)
| Peek (c : call)                    (* scheduling-dependent choice: does the environment have a next call like c pending? *)
| FileExists (f : N) | FileWrite (f : N) | FileRemove (f : N).

Record node_state := {
  ns_ping_ok : bool; ns_ping_dubious : bool;
  ns_is_master : bool; ns_ro : bool; ns_super_ro : bool; ns_offline : bool;
  ns_is_cascade : bool; ns_fs_ro : bool;
  ns_has_error : bool;
  ns_disk : option (Z * Z);                       (* used, total *)
  ns_daemon : option (Z * Z * bool);              (* start, recovery, crash_recovery *)
  ns_master_gtid : option gtidset;
  ns_slave : option repl_status;
  ns_semi : option (bool * bool * Z);
  ns_repl_settings : option (Z * Z);
  ns_check_at : Z }.

Definition empty_ns : node_state :=
  {| ns_ping_ok := false; ns_ping_dubious := false; ns_is_master := false; ns_ro := false; ns_super_ro := false;
     ns_offline := false; ns_is_cascade := false; ns_fs_ro := false; ns_has_error := false; ns_disk := None;
     ns_daemon := None; ns_master_gtid := None; ns_slave := None; ns_semi := None; ns_repl_settings := None; ns_check_at := 0 |}.


Inductive resp :=
| RErr (e : err)
| ROk
| RBool (b : bool)
| RFlags (a b : bool)                  (* read_only, super_read_only *)
| RSemi (m s : bool) (w : Z)
| RRepl (o : option repl_status)
| RGtid (s : gtidset)
| RZ (z : Z)
| RZ2 (a b : Z)
| RIds (l : list Z)
| RBinlogs (l : list (N * Z))
| RVal (v : dval)
| RHosts (l : list host)
| RNodeState (ns : node_state)     (* results of parallel branches *)
| RPos (p : position).

Definition site := Z.

Inductive prog (A : Type) : Type :=
| Ret (a : A)
| Panic (s : site)                                   (* nil dereference / explicit panic *)
| Do (s : site) (c : call) (k : resp -> prog A)
| Par (s : site) (bs : list (host * prog resp)) (k : list (host * resp) -> prog A).
Arguments Ret {A} a.
Arguments Panic {A} s.
Arguments Do {A} s c k.
Arguments Par {A} s bs k.

Fixpoint bind {A B} (p : prog A) (f : A -> prog B) : prog B :=
  match p with
  | Ret a => f a
  | Panic s => Panic s
  | Do s c k => Do s c (fun r => bind (k r) f)
  | Par s bs k => Par s bs (fun rs => bind (k rs) f)
  end.
Notation "x <- p ;; q" := (bind p (fun x => q)) (at level 61, p at next level, right associativity).
Notation "p ;;; q" := (bind p (fun _ => q)) (at level 61, right associativity).
Definition call_ (s : site) (c : call) : prog resp := Do s c (fun r => Ret r).

Fixpoint forM {A B} (l : list A) (f : A -> prog B) : prog (list B) :=
  match l with
  | [] => Ret []
  | x :: r => b <- f x ;; bs <- forM r f ;; Ret (b :: bs)
  end.
Fixpoint forM_ {A} (l : list A) (f : A -> prog unit) : prog unit :=
  match l with
  | [] => Ret tt
  | x :: r => f x ;;; forM_ r f
  end.

(* ---- traces -------------------------------------------------------------- *)
Record event := { ev_site : site; ev_call : call; ev_resp : resp }.
Definition trace := list event.

(* all interleavings of a list of traces *)
Fixpoint interleave2 (a : trace) : trace -> trace -> Prop :=
  match a with
  | [] => fun b t => t = b
  | x :: a' =>
      fix inner (b : trace) : trace -> Prop :=
        match b with
        | [] => fun t => t = x :: a'
        | y :: b' => fun t =>
            match t with
            | [] => False
            | z :: t' => (z = x /\ interleave2 a' (y :: b') t') \/ (z = y /\ inner b' t')
            end
        end
  end.
Fixpoint interleave (ts : list trace) (t : trace) : Prop :=
  match ts with
  | [] => t = []
  | a :: r => exists tr, interleave r tr /\ interleave2 a tr t
  end.

(* outcome of a run *)
Inductive outcome (A : Type) := Done (a : A) | Panicked (s : site).
Arguments Done {A} a.
Arguments Panicked {A} s.

Fixpoint runs {A} (p : prog A) : trace -> outcome A -> Prop :=
  match p with
  | Ret a => fun tr o => tr = [] /\ o = Done a
  | Panic s => fun tr o => tr = [] /\ o = Panicked s
  | Do s c k => fun tr o =>
      match tr with
      | [] => False
      | e :: tr' => ev_site e = s /\ ev_call e = c /\ runs (k (ev_resp e)) tr' o
      end
  | Par s bs k => fun tr o =>
      (* every branch runs to an outcome; a panicking branch kills the process;
         the join hands the results over in ANY order (goroutine completion order) *)
      (fix branches (bs : list (host * prog resp)) (acc_tr : list trace) (acc_rs : list (host * resp)) : Prop :=
         match bs with
         | [] => exists tpar tk rs, interleave (rev acc_tr) tpar /\ tr = tpar ++ tk /\ Permutation (rev acc_rs) rs /\ runs (k rs) tk o
         | (h, b) :: bs' =>
             exists tb ob, runs b tb ob /\
               match ob with
               | Done r => branches bs' (tb :: acc_tr) ((h, r) :: acc_rs)
               | Panicked s' => o = Panicked s' /\ exists tpar, interleave (rev (tb :: acc_tr)) tpar /\ tr = tpar
               end
         end) bs [] []
  end.

(* ---- a syntactic safety judgement: every call the program can ever issue,
   under any responses, satisfies P ----------------------------------------- *)
Fixpoint allcalls {A} (P : site -> call -> Prop) (p : prog A) : Prop :=
  match p with
  | Ret _ => True
  | Panic _ => True
  | Do s c k => P s c /\ forall r, allcalls P (k r)
  | Par s bs k =>
      (fix go (bs : list (host * prog resp)) : Prop :=
         match bs with [] => True | (_, b) :: r => allcalls P b /\ go r end) bs
      /\ forall rs, allcalls P (k rs)
  end.

Fixpoint nopanic {A} (p : prog A) : Prop :=
  match p with
  | Ret _ => True
  | Panic _ => False
  | Do s c k => forall r, nopanic (k r)
  | Par s bs k =>
      (fix go (bs : list (host * prog resp)) : Prop :=
         match bs with [] => True | (_, b) :: r => nopanic b /\ go r end) bs
      /\ forall rs, nopanic (k rs)
  end.
