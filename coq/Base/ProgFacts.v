(* Metatheory of Base/Prog.v used by every procedure theorem. *)
From Coq Require Import ZArith NArith Bool List Lia Permutation.
From Mysync Require Import Gtid.Interval Gtid.GtidSet Base.Prog.
Import ListNotations.

Definition ev_ok (P : site -> call -> Prop) (e : event) : Prop := P (ev_site e) (ev_call e).

Lemma interleave2_Forall (Q : event -> Prop) a : forall b t,
  interleave2 a b t -> Forall Q a -> Forall Q b -> Forall Q t.
Proof.
  induction a as [|x a' IH]; intros b t H Ha Hb; cbn in H.
  - subst. exact Hb.
  - revert t H. induction b as [|y b' IHb]; intros t H; cbn in H.
    + subst. exact Ha.
    + destruct t as [|z t']; [destruct H|]. destruct H as [[-> H]|[-> H]].
      * constructor; [inversion Ha; assumption|]. apply (IH (y :: b')); auto. inversion Ha; assumption.
      * constructor; [inversion Hb; assumption|]. apply IHb; [inversion Hb; assumption|exact H].
Qed.

Lemma interleave_Forall (Q : event -> Prop) ts : forall t,
  interleave ts t -> Forall (Forall Q) ts -> Forall Q t.
Proof.
  induction ts as [|a r IH]; intros t H Hall; cbn in H.
  - subst. constructor.
  - destruct H as (tr & H1 & H2). inversion Hall; subst.
    eapply interleave2_Forall; eauto.
Qed.

(* ---- allcalls is sound for every run -------------------------------------- *)
Section Allcalls.
Variable P : site -> call -> Prop.

Fixpoint allcalls_sound {A} (p : prog A) {struct p} :
  allcalls P p -> forall tr o, runs p tr o -> Forall (ev_ok P) tr.
Proof.
  destruct p as [a|s|s c k|s bs k]; cbn [allcalls runs]; intros Hall tr o Hr.
  - destruct Hr as [-> _]. constructor.
  - destruct Hr as [-> _]. constructor.
  - destruct Hall as [Hc Hk]. destruct tr as [|e tr']; [destruct Hr|].
    destruct Hr as (Hs & Hcall & Hrest). constructor.
    + unfold ev_ok. rewrite Hs, Hcall. exact Hc.
    + eapply (allcalls_sound _ (k (ev_resp e))); eauto.
  - destruct Hall as [Hbs Hk].
    (* generalise the accumulator of the nested fix *)
    assert (G : forall (bs0 : list (host * prog resp)) acc_tr acc_rs,
      (fix go (bs : list (host * prog resp)) : Prop :=
         match bs with [] => True | (_, b) :: r => allcalls P b /\ go r end) bs0 ->
      Forall (Forall (ev_ok P)) acc_tr ->
      (fix branches (bs : list (host * prog resp)) (acc_tr : list trace) (acc_rs : list (host * resp)) : Prop :=
         match bs with
         | [] => exists tpar tk rs, interleave (rev acc_tr) tpar /\ tr = tpar ++ tk /\ Permutation (rev acc_rs) rs /\ runs (k rs) tk o
         | (h, b) :: bs' =>
             exists tb ob, runs b tb ob /\
               match ob with
               | Done r => branches bs' (tb :: acc_tr) ((h, r) :: acc_rs)
               | Panicked s' => o = Panicked s' /\ exists tpar, interleave (rev (tb :: acc_tr)) tpar /\ tr = tpar
               end
         end) bs0 acc_tr acc_rs ->
      Forall (ev_ok P) tr).
    { induction bs0 as [|[h b] bs' IHb]; intros acc_tr acc_rs Hgo Hacc Hrun.
      - destruct Hrun as (tpar & tk & rs & Hi & -> & _ & Hrk). apply Forall_app. split.
        + eapply interleave_Forall; eauto. apply Forall_rev. exact Hacc.
        + eapply (allcalls_sound _ (k rs)); eauto.
      - destruct Hgo as [Hb Hgo]. destruct Hrun as (tb & ob & Hrb & Hrest).
        assert (Forall (ev_ok P) tb) as Htb by (eapply (allcalls_sound _ b); eauto).
        destruct ob as [r|s'].
        + apply (IHb (tb :: acc_tr) ((h, r) :: acc_rs)); [exact Hgo|constructor; auto|exact Hrest].
        + destruct Hrest as (_ & tpar & Hi & ->). eapply interleave_Forall; eauto.
          apply Forall_rev. constructor; auto. }
    eapply G; eauto.
Qed.
End Allcalls.

(* ---- nopanic -------------------------------------------------------------- *)
Fixpoint nopanic_sound {A} (p : prog A) {struct p} :
  nopanic p -> forall tr o, runs p tr o -> exists a, o = Done a.
Proof.
  destruct p as [a|s|s c k|s bs k]; cbn [nopanic runs]; intros Hnp tr o Hr.
  - destruct Hr as [_ ->]. eauto.
  - destruct Hnp.
  - destruct tr as [|e tr']; [destruct Hr|]. destruct Hr as (_ & _ & Hrest).
    eapply (nopanic_sound _ (k (ev_resp e))); eauto.
  - destruct Hnp as [Hbs Hk].
    assert (G : forall (bs0 : list (host * prog resp)) acc_tr acc_rs,
      (fix go (bs : list (host * prog resp)) : Prop :=
         match bs with [] => True | (_, b) :: r => nopanic b /\ go r end) bs0 ->
      (fix branches (bs : list (host * prog resp)) (acc_tr : list trace) (acc_rs : list (host * resp)) : Prop :=
         match bs with
         | [] => exists tpar tk rs, interleave (rev acc_tr) tpar /\ tr = tpar ++ tk /\ Permutation (rev acc_rs) rs /\ runs (k rs) tk o
         | (h, b) :: bs' =>
             exists tb ob, runs b tb ob /\
               match ob with
               | Done r => branches bs' (tb :: acc_tr) ((h, r) :: acc_rs)
               | Panicked s' => o = Panicked s' /\ exists tpar, interleave (rev (tb :: acc_tr)) tpar /\ tr = tpar
               end
         end) bs0 acc_tr acc_rs ->
      exists a, o = Done a).
    { induction bs0 as [|[h b] bs' IHb]; intros acc_tr acc_rs Hgo Hrun.
      - destruct Hrun as (tpar & tk & rs & _ & _ & _ & Hrk). eapply (nopanic_sound _ (k rs)); eauto.
      - destruct Hgo as [Hb Hgo]. destruct Hrun as (tb & ob & Hrb & Hrest).
        destruct (nopanic_sound _ b Hb _ _ Hrb) as [r ->]. apply (IHb (tb :: acc_tr) ((h, r) :: acc_rs)); [exact Hgo|exact Hrest]. }
    eapply G; eauto.
Qed.

(* induction over the continuation structure (branches of Par are not visited) *)
Definition prog_ind_k {A} (Pr : prog A -> Prop)
  (h1 : forall a, Pr (Ret a)) (h2 : forall s, Pr (Panic s))
  (h3 : forall s c k, (forall r, Pr (k r)) -> Pr (Do s c k))
  (h4 : forall s bs k, (forall rs, Pr (k rs)) -> Pr (Par s bs k)) : forall p, Pr p :=
  fix F (p : prog A) : Pr p :=
    match p with
    | Ret a => h1 a
    | Panic s => h2 s
    | Do s c k => h3 s c k (fun r => F (k r))
    | Par s bs k => h4 s bs k (fun rs => F (k rs))
    end.

(* allcalls / nopanic through bind *)
Lemma allcalls_bind {A B} P (p : prog A) (f : A -> prog B) :
  allcalls P p -> (forall a, allcalls P (f a)) -> allcalls P (bind p f).
Proof.
  induction p as [a|s|s c k IH|s bs k IH] using prog_ind_k; intros Hp Hf; cbn in *; auto.
  - destruct Hp as [Hc Hk]. split; auto.
  - destruct Hp as [Hb Hk]. split; auto.
Qed.

Lemma nopanic_bind {A B} (p : prog A) (f : A -> prog B) :
  nopanic p -> (forall a, nopanic (f a)) -> nopanic (bind p f).
Proof.
  induction p as [a|s|s c k IH|s bs k IH] using prog_ind_k; intros Hp Hf; cbn in *; auto.
  destruct Hp as [Hb Hk]. split; auto.
Qed.

Lemma allcalls_forM_ {A} P (l : list A) (f : A -> prog unit) :
  (forall x, In x l -> allcalls P (f x)) -> allcalls P (forM_ l f).
Proof.
  induction l as [|x r IH]; intros H; cbn [forM_]; [exact I|].
  apply allcalls_bind; [apply H; left; reflexivity|]. intros _. apply IH. intros y Hy. apply H. right. exact Hy.
Qed.

Lemma allcalls_forM {A B} P (l : list A) (f : A -> prog B) :
  (forall x, In x l -> allcalls P (f x)) -> allcalls P (forM l f).
Proof.
  induction l as [|x r IH]; intros H; cbn [forM]; [exact I|].
  apply allcalls_bind; [apply H; left; reflexivity|]. intros b.
  apply allcalls_bind; [apply IH; intros y Hy; apply H; right; exact Hy|]. intros bs. exact I.
Qed.

Lemma nopanic_forM {A B} (l : list A) (f : A -> prog B) :
  (forall x, In x l -> nopanic (f x)) -> nopanic (forM l f).
Proof.
  induction l as [|x r IH]; intros H; cbn [forM]; [exact I|].
  apply nopanic_bind; [apply H; left; reflexivity|]. intros b.
  apply nopanic_bind; [apply IH; intros y Hy; apply H; right; exact Hy|]. intros bs. exact I.
Qed.
Lemma nopanic_forM_ {A} (l : list A) (f : A -> prog unit) :
  (forall x, In x l -> nopanic (f x)) -> nopanic (forM_ l f).
Proof.
  induction l as [|x r IH]; intros H; cbn [forM_]; [exact I|].
  apply nopanic_bind; [apply H; left; reflexivity|]. intros _. apply IH. intros y Hy. apply H. right. exact Hy.
Qed.

(* branch lists built by map *)
Lemma allcalls_branches_map {X} P (l : list X) (h : X -> host) (f : X -> prog resp) :
  (forall x, In x l -> allcalls P (f x)) ->
  (fix go (bs : list (host * prog resp)) : Prop :=
     match bs with [] => True | (_, b) :: r => allcalls P b /\ go r end) (map (fun x => (h x, f x)) l).
Proof.
  induction l as [|x r IH]; intros H; cbn; [exact I|]. split; [apply H; left; reflexivity|].
  apply IH. intros y Hy. apply H. right. exact Hy.
Qed.
Lemma nopanic_branches_map {X} (l : list X) (h : X -> host) (f : X -> prog resp) :
  (forall x, In x l -> nopanic (f x)) ->
  (fix go (bs : list (host * prog resp)) : Prop :=
     match bs with [] => True | (_, b) :: r => nopanic b /\ go r end) (map (fun x => (h x, f x)) l).
Proof.
  induction l as [|x r IH]; intros H; cbn; [exact I|]. split; [apply H; left; reflexivity|].
  apply IH. intros y Hy. apply H. right. exact Hy.
Qed.

(* the first call of a program *)
Definition head_call {A} (p : prog A) : option call := match p with Do _ c _ => Some c | _ => None end.
Lemma runs_head {A} (p : prog A) c tr o : head_call p = Some c -> runs p tr o ->
  exists e tr', tr = e :: tr' /\ ev_call e = c.
Proof.
  destruct p as [a|s|s c0 k|s bs k]; cbn [head_call]; intros Hh Hr; try discriminate.
  inversion Hh; subst. cbn [runs] in Hr. destruct tr as [|e tr']; [destruct Hr|]. destruct Hr as (_ & Hc & _). eauto.
Qed.

(* ---- monitored safety: a deterministic monitor over the events of a run.
   Calls issued inside Par branches must be neutral for the monitor (they are
   checked against the state at the fork), which is the case for every use
   below: the monitored events are issued by the sequential spine. ------------- *)
Section Monitor.
Variable S : Type.
Variable step : S -> call -> resp -> S.
Variable okc : S -> call -> Prop.

Definition neutral (c : call) : Prop := forall st r, step st c r = st.

Fixpoint safe {A} (st : S) (p : prog A) : Prop :=
  match p with
  | Ret _ => True
  | Panic _ => True
  | Do s c k => okc st c /\ forall r, safe (step st c r) (k r)
  | Par s bs k =>
      (fix go (bs : list (host * prog resp)) : Prop :=
         match bs with [] => True | (_, b) :: r => allcalls (fun _ c => okc st c /\ neutral c) b /\ go r end) bs
      /\ forall rs, safe st (k rs)
  end.

Fixpoint trace_ok (st : S) (tr : trace) : Prop :=
  match tr with
  | [] => True
  | e :: r => okc st (ev_call e) /\ trace_ok (step st (ev_call e) (ev_resp e)) r
  end.

Lemma trace_ok_neutral_app st t1 t2 :
  Forall (fun e => okc st (ev_call e) /\ neutral (ev_call e)) t1 -> trace_ok st t2 -> trace_ok st (t1 ++ t2).
Proof.
  induction t1 as [|e r IH]; intros H1 H2; cbn; [exact H2|].
  inversion H1 as [|? ? [Ho Hn] Hr]; subst. split; [exact Ho|]. rewrite Hn. apply IH; assumption.
Qed.

Fixpoint safe_sound {A} (p : prog A) {struct p} :
  forall st, safe st p -> forall tr o, runs p tr o -> trace_ok st tr.
Proof.
  destruct p as [a|s|s c k|s bs k]; cbn [safe runs]; intros st Hs tr o Hr.
  - destruct Hr as [-> _]. exact I.
  - destruct Hr as [-> _]. exact I.
  - destruct Hs as [Hc Hk]. destruct tr as [|e tr']; [destruct Hr|].
    destruct Hr as (_ & Hcall & Hrest). cbn. rewrite Hcall. split; [exact Hc|].
    eapply (safe_sound _ (k (ev_resp e))); eauto.
  - destruct Hs as [Hbs Hk].
    assert (G : forall (bs0 : list (host * prog resp)) acc_tr acc_rs,
      (fix go (bs : list (host * prog resp)) : Prop :=
         match bs with [] => True | (_, b) :: r => allcalls (fun _ c => okc st c /\ neutral c) b /\ go r end) bs0 ->
      Forall (Forall (fun e => okc st (ev_call e) /\ neutral (ev_call e))) acc_tr ->
      (fix branches (bs : list (host * prog resp)) (acc_tr : list trace) (acc_rs : list (host * resp)) : Prop :=
         match bs with
         | [] => exists tpar tk rs, interleave (rev acc_tr) tpar /\ tr = tpar ++ tk /\ Permutation (rev acc_rs) rs /\ runs (k rs) tk o
         | (h, b) :: bs' =>
             exists tb ob, runs b tb ob /\
               match ob with
               | Done r => branches bs' (tb :: acc_tr) ((h, r) :: acc_rs)
               | Panicked s' => o = Panicked s' /\ exists tpar, interleave (rev (tb :: acc_tr)) tpar /\ tr = tpar
               end
         end) bs0 acc_tr acc_rs ->
      trace_ok st tr).
    { induction bs0 as [|[h b] bs' IHb]; intros acc_tr acc_rs Hgo Hacc Hrun.
      - destruct Hrun as (tpar & tk & rs & Hi & -> & _ & Hrk). apply trace_ok_neutral_app.
        + eapply interleave_Forall; eauto. apply Forall_rev. exact Hacc.
        + eapply (safe_sound _ (k rs)); eauto.
      - destruct Hgo as [Hb Hgo]. destruct Hrun as (tb & ob & Hrb & Hrest).
        assert (Forall (fun e => okc st (ev_call e) /\ neutral (ev_call e)) tb) as Htb.
        { pose proof (allcalls_sound _ b Hb tb ob Hrb) as F. eapply Forall_impl; [|exact F]. intros e He. exact He. }
        destruct ob as [r|s'].
        + apply (IHb (tb :: acc_tr) ((h, r) :: acc_rs)); [exact Hgo|constructor; auto|exact Hrest].
        + destruct Hrest as (_ & tpar & Hi & ->). rewrite <- (app_nil_r tpar). apply trace_ok_neutral_app; [|exact I].
          eapply interleave_Forall; eauto. apply Forall_rev. constructor; auto. }
    eapply G; eauto.
Qed.

Lemma safe_bind {A B} (p : prog A) (f : A -> prog B) : forall st,
  safe st p -> (forall st' a, safe st' (f a)) -> safe st (bind p f).
Proof.
  induction p as [a|s|s c k IH|s bs k IH] using prog_ind_k; intros st Hp Hf; cbn in *; auto.
  - destruct Hp as [Hc Hk]. split; auto.
  - destruct Hp as [Hb Hk]. split; auto.
Qed.

(* bind under a state invariant preserved by every monitor step *)
Lemma safe_bind_inv {A B} (Inv : S -> Prop) (HI : forall st c r, Inv st -> Inv (step st c r))
      (p : prog A) (f : A -> prog B) : forall st,
  Inv st -> safe st p -> (forall st' a, Inv st' -> safe st' (f a)) -> safe st (bind p f).
Proof.
  induction p as [a|s|s c k IH|s bs k IH] using prog_ind_k; intros st Hi Hp Hf; cbn in *; auto.
  - destruct Hp as [Hc Hk]. split; auto.
  - destruct Hp as [Hb Hk]. split; auto.
Qed.

(* a sub-program all of whose calls are fine in every state and neutral *)
Lemma safe_of_allcalls {A} (p : prog A) :
  allcalls (fun _ c => (forall st, okc st c) /\ neutral c) p -> forall st, safe st p.
Proof.
  induction p as [a|s|s c k IH|s bs k IH] using prog_ind_k; intros Hp st; cbn in *; auto.
  - destruct Hp as [[Hc Hn] Hk]. split; [apply Hc|]. intros r. rewrite Hn. apply IH. apply Hk.
  - destruct Hp as [Hb Hk]. split; [|intros rs; apply IH; apply Hk].
    clear Hk IH. induction bs as [|[h b] r IHr]; [exact I|]. destruct Hb as [H1 H2]. split; [|apply IHr; exact H2].
    revert H1. clear. intros H1.
    (* weaken the predicate pointwise *)
    assert (W : forall (X : Type) (q : prog X), allcalls (fun _ c => (forall st, okc st c) /\ neutral c) q -> allcalls (fun _ c => okc st c /\ neutral c) q).
    { fix F 2. intros X q. destruct q as [a|s|s c k|s bs k]; cbn [allcalls]; intros H; auto.
      - destruct H as [[Hc Hn] Hk]. split; [split; [apply Hc|exact Hn]|]. intros r. apply F. apply Hk.
      - destruct H as [Hb Hk]. split; [|intros rs; apply F; apply Hk].
        induction bs as [|[h' b'] r' IHr']; [exact I|]. destruct Hb as [K1 K2]. split; [apply F; exact K1|apply IHr'; exact K2]. }
    apply W. exact H1.
Qed.
End Monitor.

(* a sub-program whose calls are fine in state st and do not move the monitor *)
Lemma safe_at {S} (step : S -> call -> resp -> S) (okc : S -> call -> Prop) {A} (p : prog A) (st : S) :
  allcalls (fun _ c => okc st c /\ neutral S step c) p -> safe S step okc st p.
Proof.
  induction p as [a|s|s c k IH|s bs k IH] using prog_ind_k; intros Hp; cbn in *; auto.
  - destruct Hp as [[Hc Hn] Hk]. split; [exact Hc|]. intros r. rewrite Hn. apply IH. apply Hk.
  - destruct Hp as [Hb Hk]. split; [exact Hb|]. intros rs. apply IH. apply Hk.
Qed.

Lemma allcalls_impl {A} (P Q : site -> call -> Prop) : (forall s c, P s c -> Q s c) ->
  forall (p : prog A), allcalls P p -> allcalls Q p.
Proof.
  intros HPQ. revert A. fix F 2. intros A p. destruct p as [a|s|s c k|s bs k]; cbn [allcalls]; intros K; auto.
  - destruct K as [Kc Kk]. split; [apply HPQ; exact Kc|]. intros r. apply F. apply Kk.
  - destruct K as [Kb Kk]. split; [|intros rs; apply F; apply Kk].
    induction bs as [|[h' b'] r' IHr']; [exact I|]. destruct Kb as [K1 K2]. split; [apply F; exact K1|apply IHr'; exact K2].
Qed.

(* ---- runs of a bind split into a run of the first part and one of the rest ---- *)
Lemma runs_bind_inv {A B} (p : prog A) (f : A -> prog B) : forall tr o,
  runs (bind p f) tr o ->
  (exists tr1 tr2 a, runs p tr1 (Done a) /\ runs (f a) tr2 o /\ tr = tr1 ++ tr2) \/
  (exists s, runs p tr (Panicked s) /\ o = Panicked s).
Proof.
  induction p as [a|s|s c k IH|s bs k IH] using prog_ind_k; intros tr o H; cbn [bind] in H.
  - left. exists [], tr, a. cbn. auto.
  - cbn in H. destruct H as [-> ->]. right. exists s. cbn. auto.
  - cbn [runs] in H. destruct tr as [|e tr']; [destruct H|]. destruct H as (Hs & Hc & Hr).
    destruct (IH (ev_resp e) _ _ Hr) as [(tr1 & tr2 & a & H1 & H2 & E)|(s' & H1 & E)].
    + left. exists (e :: tr1), tr2, a. cbn [runs]. subst. auto.
    + right. exists s'. cbn [runs]. auto.
  - cbn [runs] in H |- *.
    (* generalise over the accumulators of the nested fix *)
    assert (G : forall (bs0 : list (host * prog resp)) acc_tr acc_rs,
      (fix branches (bs : list (host * prog resp)) (acc_tr : list trace) (acc_rs : list (host * resp)) : Prop :=
         match bs with
         | [] => exists tpar tk rs, interleave (rev acc_tr) tpar /\ tr = tpar ++ tk /\ Permutation (rev acc_rs) rs /\ runs (bind (k rs) f) tk o
         | (h, b) :: bs' =>
             exists tb ob, runs b tb ob /\
               match ob with
               | Done r => branches bs' (tb :: acc_tr) ((h, r) :: acc_rs)
               | Panicked s' => o = Panicked s' /\ exists tpar, interleave (rev (tb :: acc_tr)) tpar /\ tr = tpar
               end
         end) bs0 acc_tr acc_rs ->
      (exists tr1 tr2 a,
        (fix branches (bs : list (host * prog resp)) (acc_tr : list trace) (acc_rs : list (host * resp)) : Prop :=
           match bs with
           | [] => exists tpar tk rs, interleave (rev acc_tr) tpar /\ tr1 = tpar ++ tk /\ Permutation (rev acc_rs) rs /\ runs (k rs) tk (Done a)
           | (h, b) :: bs' =>
               exists tb ob, runs b tb ob /\
                 match ob with
                 | Done r => branches bs' (tb :: acc_tr) ((h, r) :: acc_rs)
                 | Panicked s' => Done a = Panicked s' /\ exists tpar, interleave (rev (tb :: acc_tr)) tpar /\ tr1 = tpar
                 end
           end) bs0 acc_tr acc_rs /\ runs (f a) tr2 o /\ tr = tr1 ++ tr2) \/
      (exists s',
        (fix branches (bs : list (host * prog resp)) (acc_tr : list trace) (acc_rs : list (host * resp)) : Prop :=
           match bs with
           | [] => exists tpar tk rs, interleave (rev acc_tr) tpar /\ tr = tpar ++ tk /\ Permutation (rev acc_rs) rs /\ runs (k rs) tk (Panicked s')
           | (h, b) :: bs' =>
               exists tb ob, runs b tb ob /\
                 match ob with
                 | Done r => branches bs' (tb :: acc_tr) ((h, r) :: acc_rs)
                 | Panicked s'' => Panicked (A:=A) s' = Panicked s'' /\ exists tpar, interleave (rev (tb :: acc_tr)) tpar /\ tr = tpar
                 end
           end) bs0 acc_tr acc_rs /\ o = Panicked s')).
    { induction bs0 as [|[h b] bs' IHb]; intros acc_tr acc_rs Hrun.
      - destruct Hrun as (tpar & tk & rs & Hi & Etr & Hp & Hrk).
        destruct (IH rs _ _ Hrk) as [(t1 & t2 & a & K1 & K2 & Etk)|(s' & K1 & Eo)].
        + left. exists (tpar ++ t1), t2, a. split; [|split; [exact K2|rewrite Etr, Etk, app_assoc; reflexivity]].
          exists tpar, t1, rs. auto.
        + right. exists s'. split; [|exact Eo]. exists tpar, tk, rs. auto.
      - destruct Hrun as (tb & ob & Hrb & Hrest). destruct ob as [r|s''].
        + destruct (IHb _ _ Hrest) as [(t1 & t2 & a & K1 & K2 & K3)|(s' & K1 & K2)].
          * left. exists t1, t2, a. split; [|auto]. exists tb, (Done r). auto.
          * right. exists s'. split; [|exact K2]. exists tb, (Done r). auto.
        + destruct Hrest as (Eo & tpar & Hi & Etr). right. exists s''. split; [|exact Eo].
          exists tb, (Panicked s''). split; [exact Hrb|]. split; [reflexivity|]. exists tpar. auto. }
    destruct (G bs [] [] H) as [(t1 & t2 & a & K1 & K2 & K3)|(s' & K1 & K2)].
    + left. exists t1, t2, a. auto.
    + right. exists s'. auto.
Qed.

(* ---- panics_in: every crash leaf of the program lies at a site satisfying Q ------------------ *)
Fixpoint panics_in {A} (Q : site -> Prop) (p : prog A) : Prop :=
  match p with
  | Ret _ => True
  | Panic s => Q s
  | Do s c k => forall r, panics_in Q (k r)
  | Par s bs k =>
      (fix go (bs : list (host * prog resp)) : Prop :=
         match bs with [] => True | (_, b) :: r => panics_in Q b /\ go r end) bs
      /\ forall rs, panics_in Q (k rs)
  end.

Fixpoint panics_in_sound {A} (Q : site -> Prop) (p : prog A) {struct p} :
  panics_in Q p -> forall tr s, runs p tr (Panicked s) -> Q s.
Proof.
  destruct p as [a|s0|s0 c k|s0 bs k]; cbn [panics_in runs]; intros Hnp tr s Hr.
  - destruct Hr as [_ Hr]. discriminate Hr.
  - destruct Hr as [_ Hr]. inversion Hr; subst. exact Hnp.
  - destruct tr as [|e tr']; [destruct Hr|]. destruct Hr as (_ & _ & Hrest).
    eapply (panics_in_sound _ Q (k (ev_resp e))); eauto.
  - destruct Hnp as [Hbs Hk].
    assert (G : forall (bs0 : list (host * prog resp)) acc_tr acc_rs,
      (fix go (bs : list (host * prog resp)) : Prop :=
         match bs with [] => True | (_, b) :: r => panics_in Q b /\ go r end) bs0 ->
      (fix branches (bs : list (host * prog resp)) (acc_tr : list trace) (acc_rs : list (host * resp)) : Prop :=
         match bs with
         | [] => exists tpar tk rs, interleave (rev acc_tr) tpar /\ tr = tpar ++ tk /\ Permutation (rev acc_rs) rs /\ runs (k rs) tk (Panicked s)
         | (h, b) :: bs' =>
             exists tb ob, runs b tb ob /\
               match ob with
               | Done r => branches bs' (tb :: acc_tr) ((h, r) :: acc_rs)
               | Panicked s' => Panicked (A:=A) s = Panicked s' /\ exists tpar, interleave (rev (tb :: acc_tr)) tpar /\ tr = tpar
               end
         end) bs0 acc_tr acc_rs ->
      Q s).
    { induction bs0 as [|[h b] bs' IHb]; intros acc_tr acc_rs Hgo Hrun.
      - destruct Hrun as (tpar & tk & rs & _ & _ & _ & Hrk). eapply (panics_in_sound _ Q (k rs)); eauto.
      - destruct Hgo as [Hb Hgo]. destruct Hrun as (tb & ob & Hrb & Hrest).
        destruct ob as [r|s'].
        + apply (IHb (tb :: acc_tr) ((h, r) :: acc_rs)); [exact Hgo|exact Hrest].
        + destruct Hrest as [E _]. inversion E; subst. eapply (panics_in_sound _ Q b); eauto. }
    eapply G; eauto.
Qed.

Lemma panics_in_bind {A B} Q (p : prog A) (f : A -> prog B) :
  panics_in Q p -> (forall a, panics_in Q (f a)) -> panics_in Q (bind p f).
Proof.
  induction p as [a|s|s c k IH|s bs k IH] using prog_ind_k; intros Hp Hf; cbn in *; auto.
  destruct Hp as [Hb Hk]. split; auto.
Qed.
Fixpoint nopanic_panics_in {A} (Q : site -> Prop) (p : prog A) {struct p} : nopanic p -> panics_in Q p.
Proof.
  destruct p as [a|s|s c k|s bs k]; cbn [nopanic panics_in]; intros H.
  - exact I.
  - destruct H.
  - intros r. apply nopanic_panics_in. apply H.
  - destruct H as [Hb Hk]. split; [|intros rs; apply nopanic_panics_in; apply Hk].
    revert Hb. induction bs as [|[h b] r IH]; [intros; exact I|]. intros [H1 H2]. split; [apply nopanic_panics_in; exact H1|apply IH; exact H2].
Qed.

(* bind whose first part does not move the monitor: the rest starts from the same state *)
Lemma safe_bind_neutral {S} (step : S -> call -> resp -> S) (okc : S -> call -> Prop) {A B} (p : prog A) (f : A -> prog B) (st : S) :
  allcalls (fun _ c => okc st c /\ neutral S step c) p -> (forall a, safe S step okc st (f a)) -> safe S step okc st (bind p f).
Proof.
  induction p as [a|s|s c k IH|s bs k IH] using prog_ind_k; intros Hp Hf; cbn in *; auto.
  - destruct Hp as [[Hc Hn] Hk]. split; [exact Hc|]. intros r. rewrite Hn. apply IH; [apply Hk|exact Hf].
  - destruct Hp as [Hb Hk]. split; [exact Hb|]. intros rs. apply IH; [apply Hk|exact Hf].
Qed.

(* ---- the join of a parallel section only sees what its branches returned -------------------- *)
Lemma runs_par_results {A} s (bs : list (host * prog resp)) (k : list (host * resp) -> prog A) tr o :
  runs (Par s bs k) tr o ->
  (exists rs tk tpar,
     (forall h r, In (h, r) rs -> exists b tb, In (h, b) bs /\ runs b tb (Done r)) /\
     tr = tpar ++ tk /\ runs (k rs) tk o) \/
  (exists s', o = Panicked s').
Proof.
  cbn [runs]. intros H.
  assert (G : forall (bs0 : list (host * prog resp)) acc_tr acc_rs,
    incl bs0 bs ->
    (forall h r, In (h, r) acc_rs -> exists b tb, In (h, b) bs /\ runs b tb (Done r)) ->
    (fix branches (bs : list (host * prog resp)) (acc_tr : list trace) (acc_rs : list (host * resp)) : Prop :=
       match bs with
       | [] => exists tpar tk rs, interleave (rev acc_tr) tpar /\ tr = tpar ++ tk /\ Permutation (rev acc_rs) rs /\ runs (k rs) tk o
       | (h, b) :: bs' =>
           exists tb ob, runs b tb ob /\
             match ob with
             | Done r => branches bs' (tb :: acc_tr) ((h, r) :: acc_rs)
             | Panicked s' => o = Panicked s' /\ exists tpar, interleave (rev (tb :: acc_tr)) tpar /\ tr = tpar
             end
       end) bs0 acc_tr acc_rs ->
    (exists rs tk tpar,
       (forall h r, In (h, r) rs -> exists b tb, In (h, b) bs /\ runs b tb (Done r)) /\
       tr = tpar ++ tk /\ runs (k rs) tk o) \/
    (exists s', o = Panicked s')).
  { induction bs0 as [|[h b] bs' IHb]; intros acc_tr acc_rs Hincl Hacc Hrun.
    - destruct Hrun as (tpar & tk & rs & _ & E & Hp & Hk). left. exists rs, tk, tpar. split; [|split; assumption].
      intros h r Hin. apply Hacc. apply in_rev. eapply Permutation_in; [apply Permutation_sym; exact Hp|exact Hin].
    - destruct Hrun as (tb & ob & Hrb & Hrest). destruct ob as [r|s'].
      + apply (IHb (tb :: acc_tr) ((h, r) :: acc_rs)); [intros x Hx; apply Hincl; right; exact Hx| |exact Hrest].
        intros h0 r0 [E|Hin]; [inversion E; subst; exists b, tb; split; [apply Hincl; left; reflexivity|exact Hrb]|apply Hacc; exact Hin].
      + destruct Hrest as [E _]. right. exists s'. exact E. }
  apply (G bs [] []); [apply incl_refl|intros h r []|exact H].
Qed.

(* ---- rets: every value the program can return satisfies Q -------------------------------------- *)
Fixpoint rets {A} (Q : A -> Prop) (p : prog A) : Prop :=
  match p with
  | Ret a => Q a
  | Panic _ => True
  | Do s c k => forall r, rets Q (k r)
  | Par s bs k => forall rs, rets Q (k rs)
  end.
Lemma rets_sound {A} (Q : A -> Prop) (p : prog A) : rets Q p -> forall tr a, runs p tr (Done a) -> Q a.
Proof.
  induction p as [a0|s|s c k IH|s bs k IH] using prog_ind_k; cbn [rets]; intros H tr a R.
  - cbn in R. destruct R as [_ E]. inversion E; subst. exact H.
  - cbn in R. destruct R as [_ E]. discriminate E.
  - cbn [runs] in R. destruct tr as [|e tr']; [destruct R|]. destruct R as (_ & _ & R). exact (IH _ (H _) _ _ R).
  - destruct (runs_par_results _ _ _ _ _ R) as [(rs & tk & tpar & _ & _ & Rk)|(s' & E)]; [|discriminate E].
    exact (IH rs (H rs) _ _ Rk).
Qed.
Lemma rets_bind {A B} (Q : B -> Prop) (p : prog A) (f : A -> prog B) :
  (forall a, rets Q (f a)) -> rets Q (bind p f).
Proof.
  induction p as [a0|s|s c k IH|s bs k IH] using prog_ind_k; intros H; cbn [bind rets]; auto.
Qed.

(* a parallel section on the spine of a procedure: its branches' events satisfy what the branches
   guarantee, and the rest of the run is a run of the continuation on some results *)
Lemma runs_par_split {A} (P : site -> call -> Prop) s (bs : list (host * prog resp)) (k : list (host * resp) -> prog A) tr o :
  (fix go (bs : list (host * prog resp)) : Prop :=
     match bs with [] => True | (_, b) :: r => allcalls P b /\ go r end) bs ->
  runs (Par s bs k) tr o ->
  (exists rs tk tpar, tr = tpar ++ tk /\ Forall (ev_ok P) tpar /\ runs (k rs) tk o) \/
  (Forall (ev_ok P) tr /\ exists s', o = Panicked s').
Proof.
  cbn [runs]. intros Hbs H.
  assert (G : forall (bs0 : list (host * prog resp)) acc_tr acc_rs,
    (fix go (bs : list (host * prog resp)) : Prop :=
       match bs with [] => True | (_, b) :: r => allcalls P b /\ go r end) bs0 ->
    Forall (Forall (ev_ok P)) acc_tr ->
    (fix branches (bs : list (host * prog resp)) (acc_tr : list trace) (acc_rs : list (host * resp)) : Prop :=
       match bs with
       | [] => exists tpar tk rs, interleave (rev acc_tr) tpar /\ tr = tpar ++ tk /\ Permutation (rev acc_rs) rs /\ runs (k rs) tk o
       | (h, b) :: bs' =>
           exists tb ob, runs b tb ob /\
             match ob with
             | Done r => branches bs' (tb :: acc_tr) ((h, r) :: acc_rs)
             | Panicked s' => o = Panicked s' /\ exists tpar, interleave (rev (tb :: acc_tr)) tpar /\ tr = tpar
             end
       end) bs0 acc_tr acc_rs ->
    (exists rs tk tpar, tr = tpar ++ tk /\ Forall (ev_ok P) tpar /\ runs (k rs) tk o) \/
    (Forall (ev_ok P) tr /\ exists s', o = Panicked s')).
  { induction bs0 as [|[h b] bs' IHb]; intros acc_tr acc_rs Hgo Hacc Hrun.
    - destruct Hrun as (tpar & tk & rs & Hi & E & _ & Hrk). left. exists rs, tk, tpar. split; [exact E|]. split; [|exact Hrk].
      eapply interleave_Forall; eauto. apply Forall_rev. exact Hacc.
    - destruct Hgo as [Hb Hgo]. destruct Hrun as (tb & ob & Hrb & Hrest).
      assert (Forall (ev_ok P) tb) as Htb by (eapply (allcalls_sound P b); eauto).
      destruct ob as [r|s'].
      + apply (IHb (tb :: acc_tr) ((h, r) :: acc_rs)); [exact Hgo|constructor; auto|exact Hrest].
      + destruct Hrest as (E & tpar & Hi & ->). right. split; [|exists s'; exact E].
        eapply interleave_Forall; eauto. apply Forall_rev. constructor; auto. }
  apply (G bs [] []); [exact Hbs|constructor|exact H].
Qed.
