(* The configuration switches of internal/config/config.go that the modelled
   procedures read.  Durations are nanoseconds (Z) as in Go. *)
From Coq Require Import ZArith NArith Bool List.
Open Scope Z_scope.

Record config := {
  c_semi_sync : bool;
  c_wait_count : Z;                   (* rpl_semi_sync_master_wait_for_slave_count *)
  c_failover : bool;
  c_failover_delay : Z;
  c_failover_cooldown : Z;
  c_inactivation_delay : Z;
  c_disable_ro_on_lost : bool;
  c_resetup_crashed : bool;
  c_db_set_ro_force_timeout : Z;
  c_critical_disk : Z;                (* percent * 100 *)
  c_not_critical_disk : Z;
  c_keep_super_writable : bool;
  c_semi_sync_enable_lag : Z;
  c_switchover_timeout : Z;
  c_switchover_max_attempts : Z;
  c_async : bool;
  c_async_allowed_lag : Z;
  c_priority_choice_max_lag : Z;       (* seconds *)
  c_wait_repl_start_timeout : Z;
  c_slave_catch_up_timeout : Z;
  c_manager_switchover : bool;
  c_manager_election_delay : Z;
  c_repl_mon : bool;
  c_master_first_adjust : bool;
  c_offline_enable_lag : Z;            (* seconds *)
  c_offline_disable_lag : Z;           (* seconds *)
  c_offline_enable_interval : Z;       (* ns *)
  c_offline_max_pct : Z;
  c_repair_aggressive : bool;
  c_repair_max_attempts : Z;
  c_repair_cooldown : Z;               (* ns *)
  c_stream_from_reasonable_lag : Z;    (* seconds *)
  c_disable_semisync_on_maint : bool
}.
