(* Executable transcript replay (K2/K3 correspondence): walk a model program
   along the calls the real code was observed to make. *)
From Coq Require Import ZArith NArith Bool List.
From Mysync Require Import Gtid.Interval Gtid.GtidSet Base.Prog.
Import ListNotations.
Open Scope Z_scope.

(* ---- decidable equality on calls (transparent, so that it computes) -------- *)
Definition option_eq_dec {A} (d : forall x y : A, {x = y} + {x <> y}) : forall x y : option A, {x = y} + {x <> y}.
Proof. decide equality. Defined.
Definition prod_eq_dec {A B} (da : forall x y : A, {x = y} + {x <> y}) (db : forall x y : B, {x = y} + {x <> y}) :
  forall x y : A * B, {x = y} + {x <> y}.
Proof. decide equality. Defined.
Definition stmt_eq_dec : forall x y : stmt, {x = y} + {x <> y}.
Proof. decide equality; try apply Z.eq_dec; try apply N.eq_dec; try apply bool_dec. Defined.
Definition dpath_eq_dec : forall x y : dpath, {x = y} + {x <> y}.
Proof. decide equality; try apply Z.eq_dec; try apply N.eq_dec. Defined.
Definition sw_type_eq_dec : forall x y : sw_type, {x = y} + {x <> y}.
Proof. decide equality. Defined.
Definition sw_cause_eq_dec : forall x y : sw_cause, {x = y} + {x <> y}.
Proof. decide equality. Defined.
Definition switch_rec_eq_dec : forall x y : switch_rec, {x = y} + {x <> y}.
Proof.
  decide equality; try apply Z.eq_dec; try apply bool_dec; try apply sw_type_eq_dec; try apply sw_cause_eq_dec;
    try (apply option_eq_dec; apply N.eq_dec);
    try (apply option_eq_dec; apply prod_eq_dec; [apply bool_dec|apply Z.eq_dec]).
Defined.
Definition maint_rec_eq_dec : forall x y : maint_rec, {x = y} + {x <> y}.
Proof. decide equality; apply bool_dec. Defined.
Definition dval_eq_dec : forall x y : dval, {x = y} + {x <> y}.
Proof.
  decide equality; try apply Z.eq_dec; try apply N.eq_dec; try apply bool_dec;
    try apply switch_rec_eq_dec; try apply maint_rec_eq_dec;
    try (apply list_eq_dec; apply N.eq_dec); try (apply option_eq_dec; apply N.eq_dec).
Defined.
Definition call_eq_dec : forall x y : call, {x = y} + {x <> y}.
Proof.
  fix F 1. decide equality; try apply Z.eq_dec; try apply N.eq_dec; try apply stmt_eq_dec; try apply dpath_eq_dec; try apply dval_eq_dec.
Defined.
Definition call_eqb (a b : call) : bool := if call_eq_dec a b then true else false.
(* observed entry [obs] answers expected call [c]; a refused connection answers any statement to that host *)
Definition call_matches (obs c : call) : bool :=
  call_eqb obs c ||
  match obs, c with
  | Sql h SRefused, Sql h' _ => N.eqb h h'
  | _, _ => false
  end.

(* ---- footprints: which fake observed the call ----------------------------- *)
Inductive fprint := FpHost (h : host) | FpBg (h : host) | FpDcs (p : dpath) | FpLock | FpSilent.
Definition footprint (c : call) : fprint :=
  match c with
  | Sql h SProcessIds | Sql h (SKill _) => FpBg h     (* issued by the concurrent kill loop *)
  | Sql h _ => FpHost h
  | DcsGet p | DcsSet p _ | DcsCreate p _ | DcsDelete p | DcsChildren p | DcsSetEph p _ => FpDcs p
  | LockAcquire | LockRelease | DcsConnected => FpLock
  | Now | Sleep _ | FileExists _ | FileWrite _ | FileRemove _ | Peek _ => FpSilent
  end.
Definition fprint_eqb (a b : fprint) : bool :=
  match a, b with
  | FpHost x, FpHost y => N.eqb x y
  | FpBg x, FpBg y => N.eqb x y
  | FpDcs p, FpDcs q => if dpath_eq_dec p q then true else false
  | FpLock, FpLock => true
  | FpSilent, FpSilent => true
  | _, _ => false
  end.

(* one observed external call *)
Record tentry := { te_idx : Z; te_call : call; te_resp : resp; te_time : Z }.

Record rstate := {
  r_rest : list tentry;        (* not yet matched, in observation order *)
  r_last : Z;                  (* index of the last matched entry on this control path *)
  r_clock : Z;                 (* virtual time (ns) *)
  r_files : list (N * bool);   (* simulated marker files *)
  r_sites : list site }.       (* visited sites, most recent first *)

Inductive rresult (A : Type) :=
| RDone (a : A) (st : rstate)
| RPanic (s : site) (st : rstate)
| RMismatch (s : site) (expected : call) (got : option tentry) (st : rstate).
Arguments RDone {A}. Arguments RPanic {A}. Arguments RMismatch {A}.

(* first entry with the given footprint, and the list without it *)
Fixpoint take_fp (fp : fprint) (l : list tentry) : option (tentry * list tentry) :=
  match l with
  | [] => None
  | e :: r =>
      if fprint_eqb (footprint (te_call e)) fp then Some (e, r)
      else match take_fp fp r with Some (x, r') => Some (x, e :: r') | None => None end
  end.

Fixpoint file_get (f : N) (l : list (N * bool)) : bool :=
  match l with [] => false | (g, b) :: r => if N.eqb f g then b else file_get f r end.
Fixpoint file_set (f : N) (v : bool) (l : list (N * bool)) : list (N * bool) :=
  match l with [] => [(f, v)] | (g, b) :: r => if N.eqb f g then (g, v) :: r else (g, b) :: file_set f v r end.

Definition visit (s : site) (st : rstate) : rstate :=
  {| r_rest := r_rest st; r_last := r_last st; r_clock := r_clock st; r_files := r_files st; r_sites := s :: r_sites st |}.

(* results of a parallel section are handed over in completion order: by the
   index of each branch's last observed call (stable for branches without calls) *)
Fixpoint insert_by_idx {X} (x : Z * X) (l : list (Z * X)) : list (Z * X) :=
  match l with
  | [] => [x]
  | y :: r => if fst y <=? fst x then y :: insert_by_idx x r else x :: l
  end.
Definition sort_by_idx {X} (l : list (Z * X)) : list (Z * X) := fold_left (fun acc x => insert_by_idx x acc) l [].

(* The order in which the results of a parallel section reach the join is not observable in the
   transcript when two branches finish close together (the goroutine that made its last call first is not
   necessarily the one that delivers its result first).  Where the order matters (ties between equally good
   candidates are broken by list order) the checkers retry with a rank: the hosts of [fst rank] first, those
   of [snd rank] last, the others in completion order. *)
Definition in_hosts (h : host) (l : list host) : bool := existsb (N.eqb h) l.
Definition rank_sort {X} (rank : list host * list host) (l : list (host * X)) : list (host * X) :=
  flat_map (fun h => filter (fun x => N.eqb (fst x) h) l) (fst rank)
  ++ filter (fun x => negb (in_hosts (fst x) (fst rank)) && negb (in_hosts (fst x) (snd rank))) l
  ++ flat_map (fun h => filter (fun x => N.eqb (fst x) h) l) (snd rank).

Fixpoint replay_r {A} (rank : list host * list host) (p : prog A) (st : rstate) : rresult A :=
  match p with
  | Ret a => RDone a st
  | Panic s => RPanic s st
  | Do s c k =>
      let st := visit s st in
      match c with
      | Now => replay_r rank (k (RZ (r_clock st))) st
      | Sleep d => replay_r rank (k ROk) {| r_rest := r_rest st; r_last := r_last st; r_clock := r_clock st + d; r_files := r_files st; r_sites := r_sites st |}
      | FileExists f => replay_r rank (k (RBool (file_get f (r_files st)))) st
      | Peek c' => replay_r rank (k (RBool (match take_fp (footprint c') (r_rest st) with Some _ => true | None => false end))) st
      | FileWrite f => replay_r rank (k ROk) {| r_rest := r_rest st; r_last := r_last st; r_clock := r_clock st; r_files := file_set f true (r_files st); r_sites := r_sites st |}
      | FileRemove f => replay_r rank (k ROk) {| r_rest := r_rest st; r_last := r_last st; r_clock := r_clock st; r_files := file_set f false (r_files st); r_sites := r_sites st |}
      | _ =>
          match take_fp (footprint c) (r_rest st) with
          | None => RMismatch s c None st
          | Some (e, rest) =>
              if call_matches (te_call e) c && (r_last st <? te_idx e) then
                replay_r rank (k (te_resp e))
                  {| r_rest := rest; r_last := te_idx e; r_clock := Z.max (r_clock st) (te_time e); r_files := r_files st; r_sites := r_sites st |}
              else RMismatch s c (Some e) st
          end
      end
  | Par s bs k =>
      let st0 := visit s st in
      (* branches are replayed one after another over the shared remainder; each
         starts from the index reached before the fork; afterwards the join
         continues from the maximal index / time reached by any branch *)
      (fix branches (bs : list (host * prog resp)) (cur : rstate) (mx_last mx_clock : Z) (acc : list (Z * (host * resp))) : rresult A :=
         match bs with
         | [] => replay_r rank (k (rank_sort rank (map snd (sort_by_idx (rev acc))))) {| r_rest := r_rest cur; r_last := mx_last; r_clock := mx_clock; r_files := r_files cur; r_sites := r_sites cur |}
         | (h, b) :: bs' =>
             match replay_r rank b {| r_rest := r_rest cur; r_last := r_last st0; r_clock := r_clock st0; r_files := r_files cur; r_sites := r_sites cur |} with
             | RDone r st' => branches bs' st' (Z.max mx_last (r_last st')) (Z.max mx_clock (r_clock st')) ((r_last st', (h, r)) :: acc)
             | RPanic s' st' => RPanic s' st'
             | RMismatch s' c g st' => RMismatch s' c g st'
             end
         end) bs st0 (r_last st0) (r_clock st0) []
  end.

Definition replay {A} (p : prog A) (st : rstate) : rresult A := replay_r ([], []) p st.
(* rank candidates for a set of hosts: completion order, each host first, each host last *)
Definition rank_candidates (hosts : list host) : list (list host * list host) :=
  ([], []) :: map (fun h => ([h], [])) hosts ++ map (fun h => ([], [h])) hosts.

(* ---- replay of a run that was cut short ------------------------------------
   The process died: every thread of it is stopped at some external call.  A call whose
   footprint has no entry left blocks its thread; the sibling branches of a parallel
   section are still walked (they may have got further); a section with a blocked
   branch blocks the join. *)
Inductive presult (A : Type) :=
| PDone (a : A) (st : rstate)
| PBlocked (st : rstate)
| PPanic (s : site) (st : rstate)
| PBad (s : site) (expected : call) (got : tentry) (st : rstate).
Arguments PDone {A}. Arguments PBlocked {A}. Arguments PPanic {A}. Arguments PBad {A}.

Fixpoint replay_prefix_r {A} (rank : list host * list host) (p : prog A) (st : rstate) : presult A :=
  match p with
  | Ret a => PDone a st
  | Panic s => PPanic s st
  | Do s c k =>
      let st := visit s st in
      match c with
      | Now => replay_prefix_r rank (k (RZ (r_clock st))) st
      | Sleep d => replay_prefix_r rank (k ROk) {| r_rest := r_rest st; r_last := r_last st; r_clock := r_clock st + d; r_files := r_files st; r_sites := r_sites st |}
      | FileExists f => replay_prefix_r rank (k (RBool (file_get f (r_files st)))) st
      | Peek c' => replay_prefix_r rank (k (RBool (match take_fp (footprint c') (r_rest st) with Some _ => true | None => false end))) st
      | FileWrite f => replay_prefix_r rank (k ROk) {| r_rest := r_rest st; r_last := r_last st; r_clock := r_clock st; r_files := file_set f true (r_files st); r_sites := r_sites st |}
      | FileRemove f => replay_prefix_r rank (k ROk) {| r_rest := r_rest st; r_last := r_last st; r_clock := r_clock st; r_files := file_set f false (r_files st); r_sites := r_sites st |}
      | _ =>
          match take_fp (footprint c) (r_rest st) with
          | None => PBlocked st
          | Some (e, rest) =>
              if call_matches (te_call e) c && (r_last st <? te_idx e) then
                replay_prefix_r rank (k (te_resp e))
                  {| r_rest := rest; r_last := te_idx e; r_clock := Z.max (r_clock st) (te_time e); r_files := r_files st; r_sites := r_sites st |}
              else PBad s c e st
          end
      end
  | Par s bs k =>
      let st0 := visit s st in
      (fix branches (bs : list (host * prog resp)) (cur : rstate) (mx_last mx_clock : Z) (blocked : bool) (acc : list (Z * (host * resp))) : presult A :=
         match bs with
         | [] => if blocked then PBlocked cur
                 else replay_prefix_r rank (k (rank_sort rank (map snd (sort_by_idx (rev acc))))) {| r_rest := r_rest cur; r_last := mx_last; r_clock := mx_clock; r_files := r_files cur; r_sites := r_sites cur |}
         | (h, b) :: bs' =>
             match replay_prefix_r rank b {| r_rest := r_rest cur; r_last := r_last st0; r_clock := r_clock st0; r_files := r_files cur; r_sites := r_sites cur |} with
             | PDone r st' => branches bs' st' (Z.max mx_last (r_last st')) (Z.max mx_clock (r_clock st')) blocked ((r_last st', (h, r)) :: acc)
             | PBlocked st' => branches bs' st' mx_last mx_clock true acc
             | PPanic s' st' => PPanic s' st'
             | PBad s' c g st' => PBad s' c g st'
             end
         end) bs st0 (r_last st0) (r_clock st0) false []
  end.

Definition replay_prefix {A} (p : prog A) (st : rstate) : presult A := replay_prefix_r ([], []) p st.

Definition init_rstate (tr : list tentry) (t0 : Z) (files : list (N * bool)) : rstate :=
  {| r_rest := tr; r_last := -1; r_clock := t0; r_files := files; r_sites := [] |}.
