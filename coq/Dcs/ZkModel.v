(* The coordination layer (internal/dcs/zk.go) as a state machine over an abstract ZooKeeper:
   a tree of nodes with optional ephemeral owners, clients with a session and a lock cache.
   Operations are issued one at a time (the histories of the correspondence harness are
   sequential; what a client is told in a race is the server's linearisation of single
   requests, which this machine executes in order).
   Paths are lists of non-empty segments below the namespace root (buildFullPath drops the
   empty ones); the raw spelling of a path is a list of optional segments. *)
From Coq Require Import ZArith NArith Bool List.
Import ListNotations.
Open Scope Z_scope.

Definition seg := N.
Definition path := list seg.
Definition raw_path := list (option seg).          (* None = an empty component: "//", leading or trailing "/" *)
Definition normalize (r : raw_path) : path := flat_map (fun o => match o with Some s => [s] | None => [] end) r.

Fixpoint path_eqb (a b : path) : bool :=
  match a, b with
  | [], [] => true
  | x :: a', y :: b' => N.eqb x y && path_eqb a' b'
  | _, _ => false
  end.

Inductive zval := ZJson (id : Z) | ZOwner (c : N) | ZGarbage | ZEmpty.
Record znode := { zn_val : zval; zn_eph : option N }.      (* owning session when ephemeral *)
Definition ztree := list (path * znode).

Fixpoint tget (t : ztree) (p : path) : option znode :=
  match t with [] => None | (q, n) :: r => if path_eqb p q then Some n else tget r p end.
Fixpoint tdel (t : ztree) (p : path) : ztree :=
  match t with [] => [] | (q, n) :: r => if path_eqb p q then tdel r p else (q, n) :: tdel r p end.
Definition tput (t : ztree) (p : path) (n : znode) : ztree := (p, n) :: tdel t p.

Definition parent_of (p : path) : path := removelast p.
Definition is_child_of (p q : path) : bool :=      (* q is a direct child of p *)
  match q with [] => false | _ => path_eqb (parent_of q) p end.
Definition children (t : ztree) (p : path) : list seg :=
  flat_map (fun '(q, _) => if is_child_of p q then [last q 0%N] else []) t.
Definition has_children (t : ztree) (p : path) : bool := existsb (fun '(q, _) => is_child_of p q) t.

Record zclient := { zc_session : N; zc_cache : list (path * Z) }.
Record zstate := {
  zs_tree : ztree;
  zs_clients : list (N * zclient);
  zs_now : Z;
  zs_next : N;            (* next fresh session id *)
  zs_ttl : Z }.           (* lock_held_ttl *)

Fixpoint cget (l : list (N * zclient)) (c : N) : zclient :=
  match l with [] => {| zc_session := 0%N; zc_cache := [] |} | (k, v) :: r => if N.eqb c k then v else cget r c end.
Fixpoint cput (l : list (N * zclient)) (c : N) (v : zclient) : list (N * zclient) :=
  match l with [] => [(c, v)] | (k, w) :: r => if N.eqb c k then (k, v) :: r else (k, w) :: cput r c v end.
Fixpoint cache_get (l : list (path * Z)) (p : path) : option Z :=
  match l with [] => None | (q, t) :: r => if path_eqb p q then Some t else cache_get r p end.
Definition cache_del (l : list (path * Z)) (p : path) : list (path * Z) := filter (fun '(q, _) => negb (path_eqb p q)) l.

Inductive zres := ZOk | ZExists | ZNotFound | ZMalformed | ZErr | ZBool (b : bool) | ZData (v : zval) | ZChildren (l : list seg).

Inductive zop :=
| OCreate (c : N) (p : raw_path) (v : Z) (eph : bool)
| OSet (c : N) (p : raw_path) (v : Z) (eph : bool)
| OGet (c : N) (p : raw_path)
| ODelete (c : N) (p : raw_path)
| OChildren (c : N) (p : raw_path)
| OAcquire (c : N) (p : raw_path)
| ORelease (c : N) (p : raw_path)
| OExpire (c : N)                 (* the server expires the client's session; the client reconnects with a fresh one *)
| OAdvance (dt : Z)
| ORawGarbage (p : raw_path)      (* another tool overwrites the node with bytes that are not JSON *)
| ODrop (c : N).                  (* the client's connection is cut and re-established within the session: zk.go
                                     forgets what it believed about locks on every event that is not "has session" *)

Definition with_tree (st : zstate) (t : ztree) : zstate :=
  {| zs_tree := t; zs_clients := zs_clients st; zs_now := zs_now st; zs_next := zs_next st; zs_ttl := zs_ttl st |}.
Definition with_client (st : zstate) (c : N) (v : zclient) : zstate :=
  {| zs_tree := zs_tree st; zs_clients := cput (zs_clients st) c v; zs_now := zs_now st; zs_next := zs_next st; zs_ttl := zs_ttl st |}.

Definition eph_owner (st : zstate) (c : N) (eph : bool) : option N :=
  if eph then Some (zc_session (cget (zs_clients st) c)) else None.

(* server-side create of one node: the parent must exist and must not be ephemeral *)
Definition srv_create (t : ztree) (p : path) (n : znode) : ztree * zres :=
  match p with
  | [] => (t, ZExists)                       (* the namespace root exists (Initialize) *)
  | _ =>
      match tget t p with
      | Some _ => (t, ZExists)
      | None =>
          match parent_of p with
          | [] => (tput t p n, ZOk)            (* directly below the root *)
          | pp => match tget t pp with
                  | None => (t, ZErr)
                  | Some pn => match zn_eph pn with Some _ => (t, ZErr) | None => (tput t p n, ZOk) end
                  end
          end
      end
  end.

(* makePath: create every missing ancestor (empty, plain), top-down; stops at the first error *)
Fixpoint prefixes (p : path) : list path :=       (* non-empty prefixes, shortest first *)
  match p with [] => [] | x :: r => [x] :: map (cons x) (prefixes r) end.
Definition make_path (t : ztree) (p : path) : ztree * bool :=
  fold_left (fun '(t, ok) q =>
     if negb ok then (t, ok) else
     match tget t q with
     | Some _ => (t, true)
     | None => let '(t', r) := srv_create t q {| zn_val := ZEmpty; zn_eph := None |} in (t', match r with ZOk => true | _ => false end)
     end) (prefixes p) (t, true).

Definition self_owner (c : N) : zval := ZOwner c.

Definition zstep (st : zstate) (o : zop) : zstate * zres :=
  let t := zs_tree st in
  match o with
  | OCreate c rp v eph =>
      let '(t', r) := srv_create t (normalize rp) {| zn_val := ZJson v; zn_eph := eph_owner st c eph |} in (with_tree st t', r)
  | OSet c rp v eph =>
      let p := normalize rp in
      match p with
      | [] => (st, ZOk)                       (* the root: always there; data overwritten (not tracked) *)
      | _ =>
        match tget t p with
        | Some n =>
            if eph && match zn_eph n with Some _ => false | None => true end then (st, ZErr)
            else (with_tree st (tput t p {| zn_val := ZJson v; zn_eph := zn_eph n |}), ZOk)
        | None =>
            let '(t1, ok) := make_path t (parent_of p) in
            if negb ok then (with_tree st t1, ZErr)
            else let '(t2, r) := srv_create t1 p {| zn_val := ZJson v; zn_eph := eph_owner st c eph |} in
                 (with_tree st t2, match r with ZOk => ZOk | _ => ZErr end)
        end
      end
  | OGet c rp =>
      match normalize rp with
      | [] => (st, ZMalformed)                (* the root holds no JSON *)
      | p => match tget t p with
             | None => (st, ZNotFound)
             | Some n => (st, match zn_val n with ZGarbage | ZEmpty => ZMalformed | v => ZData v end)
             end
      end
  | ODelete c rp =>
      match normalize rp with
      | [] => (st, ZErr)
      | p => match tget t p with
             | None => (st, ZOk)
             | Some _ => if has_children t p then (st, ZErr) else (with_tree st (tdel t p), ZOk)
             end
      end
  | OChildren c rp =>
      match normalize rp with
      | [] => (st, ZChildren (children t []))
      | p => match tget t p with None => (st, ZNotFound) | Some _ => (st, ZChildren (children t p)) end
      end
  | OAcquire c rp =>
      let p := normalize rp in
      let cl := cget (zs_clients st) c in
      let fresh := match cache_get (zc_cache cl) p with Some t0 => zs_now st - t0 <? zs_ttl st | None => false end in
      if fresh then (st, ZBool true) else
      let cl1 := {| zc_session := zc_session cl; zc_cache := cache_del (zc_cache cl) p |} in
      let st1 := with_client st c cl1 in
      let hold (st : zstate) := with_client st c {| zc_session := zc_session cl1; zc_cache := (p, zs_now st) :: zc_cache cl1 |} in
      match tget t p with
      | None =>
          let '(t', r) := srv_create t p {| zn_val := self_owner c; zn_eph := Some (zc_session cl) |} in
          match r with ZOk => (hold (with_tree st1 t'), ZBool true) | _ => (st1, ZBool false) end
      | Some n =>
          match zn_val n with
          | ZOwner c' => if N.eqb c c' then (hold st1, ZBool true) else (st1, ZBool false)
          | _ => (st1, ZBool false)
          end
      end
  | ORelease c rp =>
      let p := normalize rp in
      let cl := cget (zs_clients st) c in
      let st1 := with_client st c {| zc_session := zc_session cl; zc_cache := cache_del (zc_cache cl) p |} in
      match tget t p with
      | Some n => match zn_val n with
                  | ZOwner c' => if N.eqb c c' && negb (has_children t p) then (with_tree st1 (tdel t p), ZOk) else (st1, ZOk)
                  | _ => (st1, ZOk)
                  end
      | None => (st1, ZOk)
      end
  | OExpire c =>
      let cl := cget (zs_clients st) c in
      let t' := filter (fun '(_, n) => match zn_eph n with Some s => negb (N.eqb s (zc_session cl)) | None => true end) t in
      ({| zs_tree := t'; zs_clients := cput (zs_clients st) c {| zc_session := zs_next st; zc_cache := [] |};
          zs_now := zs_now st; zs_next := N.succ (zs_next st); zs_ttl := zs_ttl st |}, ZOk)
  | OAdvance dt =>
      ({| zs_tree := t; zs_clients := zs_clients st; zs_now := zs_now st + dt; zs_next := zs_next st; zs_ttl := zs_ttl st |}, ZOk)
  | ORawGarbage rp =>
      let p := normalize rp in
      match tget t p with
      | Some n => (with_tree st (tput t p {| zn_val := ZGarbage; zn_eph := zn_eph n |}), ZOk)
      | None => (st, ZOk)
      end
  | ODrop c =>
      let cl := cget (zs_clients st) c in
      ({| zs_tree := t; zs_clients := cput (zs_clients st) c {| zc_session := zc_session cl; zc_cache := [] |};
          zs_now := zs_now st; zs_next := zs_next st; zs_ttl := zs_ttl st |}, ZOk)
  end.

Fixpoint zrun (st : zstate) (ops : list zop) : zstate * list zres :=
  match ops with
  | [] => (st, [])
  | o :: r => let '(st1, x) := zstep st o in let '(st2, xs) := zrun st1 r in (st2, x :: xs)
  end.

Definition zinit (ttl : Z) (clients : list N) : zstate :=
  {| zs_tree := []; zs_clients := map (fun c => (c, {| zc_session := c; zc_cache := [] |})) clients;
     zs_now := 0; zs_next := 100%N; zs_ttl := ttl |}.
