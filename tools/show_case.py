#!/usr/bin/env python3
"""show_case.py cases.v idx [from] : list the transcript entries of one mgr case"""
import re, sys
s = open(sys.argv[1]).read()
cases = [l for l in s.split('\n') if l.startswith('  (')]
c = cases[int(sys.argv[2])]
lo = int(sys.argv[3]) if len(sys.argv) > 3 else 0
for m in re.finditer(r'te_idx := \((\d+)\)%Z; te_call := (.*?); te_resp := (.*?); te_time := \((\d+)\)', c):
    if int(m.group(1)) >= lo:
        print(m.group(1), m.group(2)[:90], m.group(3)[:60], m.group(4))
