#!/usr/bin/env python3
# usage: quick_corr.py <PID> <pkg> <Test> [tier]  -- run harness + evaluate cases, print mismatches and monitor hits
import sys, json
sys.path.insert(0, '/verif/lib'); import vlib, shutil
pid, pkg, test = sys.argv[1:4]; tier = sys.argv[4] if len(sys.argv) > 4 else 'quick'
out = '/verif/work/' + pid
shutil.rmtree(out, ignore_errors=True)
rc, o, dt = vlib.run_go(pkg, test, out, tier, 1)
print('go rc', rc, round(dt, 1)); 
if rc: print(o[-4000:])
for r in vlib.run_cases(out):
    print(r['file'], r['rc'], None if r['bad'] is None else (len(r['bad']), r['bad'][:12]), round(r['wall_s'], 1), r.get('log', '')[-800:])
for n, m in vlib.load_metas(out).items():
    print(n, 'evals', m['evaluations'], 'monitor hits', len(m['violations'] or []))
    for v in (m['violations'] or [])[:3]: print('  ', v['clause'], '|', v['detail'], '|', json.dumps(v['input'])[:400])
