#!/bin/bash
# usage: matrix.sh [tier]  -- every check on the clean tree, then every seeded change against the check of its property.
# Serial: the seeded changes are applied to /repo's working tree and reverted. Output: /verif/seeded/MATRIX.txt
TIER=${1:-quick}
cd /verif
OUT=/verif/seeded/MATRIX.txt
echo "# $(date -u +%FT%TZ) tier=$TIER repo=$(git -C /repo rev-parse --short HEAD) verif=$(git rev-parse --short HEAD)" > $OUT
git -C /repo diff --quiet || { echo "/repo dirty"; exit 2; }
for id in $(python3 -c "import json;print(' '.join(c['property_id'] for c in json.load(open('MANIFEST.json'))['checks']))"); do
  s=$(date +%s); ./check $id --tier $TIER > work/matrix_$id.log 2>&1; rc=$?
  echo "clean $id rc=$rc $(( $(date +%s) - s ))s | $(grep -c '^KNOWN-FINDING' work/matrix_$id.log) known | $(tail -1 work/matrix_$id.log | cut -c1-160)" >> $OUT
done
for d in seeded/*/; do
  n=$(basename $d); id=${n%%-*}
  [ -f $d/patch.diff ] || continue
  git -C /repo apply /verif/$d/patch.diff || { echo "mutant $n does-not-apply" >> $OUT; continue; }
  s=$(date +%s); ./check $id --tier $TIER > work/matrix_$n.log 2>&1; rc=$?
  git -C /repo checkout -- .
  echo "mutant $n rc=$rc $(( $(date +%s) - s ))s | $(grep '^VIOLATION' work/matrix_$n.log | head -1 | cut -c1-200)" >> $OUT
done
echo "# done $(date -u +%FT%TZ)" >> $OUT
