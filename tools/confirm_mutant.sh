#!/bin/bash
# usage: confirm_mutant.sh <dir with patch.diff, demo file(s), demo_path.txt, meta.json> <seeded name e.g. C12-A>
# Confirms in a fresh scratch worktree of /repo: clean+demo passes; patch => builds, existing tests pass, demo fails.
# On success copies the material to /verif/seeded/<name>/ and writes meta.json there.
set -u
SRC=$1; NAME=$2
export GOFLAGS=-mod=mod GOPROXY=off
WT=/tmp/confirm/$NAME
rm -rf $WT; mkdir -p /tmp/confirm
git -C /repo worktree add -q --detach $WT HEAD || exit 2
cleanup(){ git -C /repo worktree remove --force $WT 2>/dev/null; }
trap cleanup EXIT
cd $WT
# demo files: every *_test.go or *.go in SRC except patch; destination from demo_path.txt (first path-looking token ending in .go)
DEMOS=$(ls $SRC | grep -E '\.go$')
declare -A DEST
for d in $DEMOS; do
  p=$(grep -oE '(internal|cmd|tests)/[A-Za-z0-9_/.-]*'"$d" $SRC/demo_path.txt | grep -v OUT/ | head -1)
  [ -z "$p" ] && p=$(grep -oE '(internal|cmd|tests)/[A-Za-z0-9_/.-]*/' $SRC/demo_path.txt | head -1)$d
  DEST[$d]=$p
done
CMD=$(python3 -c "
import json,re
c=json.load(open('$SRC/meta.json'))['demo_cmd']
m=re.search(r'go (test|run) [^&;|]*',c)
print(m.group(0).strip())")
copy_demo(){ for d in $DEMOS; do mkdir -p $(dirname ${DEST[$d]}); cp $SRC/$d ${DEST[$d]}; done; }
rm_demo(){ for d in $DEMOS; do rm -f ${DEST[$d]}; done; }
echo "== demo cmd: $CMD"
copy_demo
( eval "$CMD" ) > /tmp/confirm/$NAME.clean.log 2>&1; RC_CLEAN=$?
rm_demo
git apply $SRC/patch.diff || { echo "patch does not apply"; exit 1; }
go build ./... > /tmp/confirm/$NAME.build.log 2>&1; RC_BUILD=$?
go test -vet=off -count=1 ./internal/... ./tests/testutil/... > /tmp/confirm/$NAME.tests.log 2>&1; RC_TESTS=$?
copy_demo
( eval "$CMD" ) > /tmp/confirm/$NAME.mut.log 2>&1; RC_MUT=$?
rm_demo
echo "clean+demo rc=$RC_CLEAN (want 0)  build rc=$RC_BUILD (want 0)  tests rc=$RC_TESTS (want 0)  mutant+demo rc=$RC_MUT (want !=0)"
if [ $RC_CLEAN -eq 0 ] && [ $RC_BUILD -eq 0 ] && [ $RC_TESTS -eq 0 ] && [ $RC_MUT -ne 0 ]; then
  D=/verif/seeded/$NAME; mkdir -p $D; cp $SRC/patch.diff $D/; for d in $DEMOS; do cp $SRC/$d $D/; done; cp $SRC/demo_path.txt $D/
  python3 - <<PY
import json
m=json.load(open('$SRC/meta.json'))
m['confirmed']={'by':'tools/confirm_mutant.sh in a scratch worktree of /repo','clean_plus_demo_rc':$RC_CLEAN,'build_rc':$RC_BUILD,'existing_tests_rc':$RC_TESTS,'mutant_plus_demo_rc':$RC_MUT,
  'ran':['go build ./...','go test -vet=off -count=1 ./internal/... ./tests/testutil/...',m['demo_cmd']]}
m['demo_files']="""$DEMOS""".split()
json.dump(m,open('$D/meta.json','w'),indent=1)
PY
  echo CONFIRMED $NAME
else
  echo NOT-CONFIRMED $NAME; tail -20 /tmp/confirm/$NAME.*.log
  exit 1
fi
