#!/usr/bin/env python3
"""Regenerate /verif/MANIFEST.json from lib/props.py (claimed properties) and
lib/manifest_text.py (level text per property)."""
import json, os, sys
V = os.path.dirname(os.path.dirname(os.path.abspath(__file__)))
sys.path.insert(0, os.path.join(V, "lib"))
from props import PROPS
from manifest_text import TEXT, NOT_APPLICABLE
ids = [json.loads(l)["id"] for l in open(os.path.join(V, "properties.jsonl"))]
m = {
 "version": 1,
 "setup_cmd": "./check --setup",
 "hooks": {"guard": "verif",
           "enable": "go test -tags verif -overlay=/verif/work/overlay.json (harness files under /verif/harness are injected into the packages of /repo's working tree; nothing is committed to /repo)",
           "baseline_off_cmd": "cd /repo && GOFLAGS=-mod=mod go test -json -vet=off -count=1 -timeout 25m ./...",
           "source_commits": [], "add_only": True},
 "engines": [{"name": "coq-model", "path": "coq/", "serves_properties": sorted(PROPS), "kind_free_text": "Coq 8.16.1 development: executable Gallina model of mysync, theorems in coq/Properties, correspondence checkers in coq/Corr"},
             {"name": "go-harness", "path": "harness/", "serves_properties": sorted(PROPS), "kind_free_text": "overlay-injected Go tests that run the real code on generated inputs and print observed behaviour as Gallina case files plus implementation-side monitor verdicts"},
             {"name": "gotrans", "path": "tools/gotrans", "serves_properties": ["C12"], "kind_free_text": "Go AST -> Gallina translator for switch_helper.go"}],
 "checks": [], "not_applicable": [],
 "notes": "All checks: ./check <ID> [--tier quick|thorough] [--replay file]. See DESIGN.md.",
}
for i in ids:
    if i in PROPS:
        t = TEXT[i]
        m["checks"].append({
            "property_id": i,
            "quick_cmd": "./check %s --tier quick" % i,
            "thorough_cmd": "./check %s --tier thorough" % i,
            "evidence_file": "/verif/evidence/%s.json" % i,
            "replay_cmd_template": "./check %s --replay {path}" % i,
            "engine": "coq-model",
            "level_claimed": {"category": "proof", "text": t["text"], "design_ref": t.get("design_ref", "DESIGN.md section 7, " + i)},
            "level_note": t["note"],
            "technique": t["technique"],
        })
    else:
        m["not_applicable"].append({"property_id": i, "reason": NOT_APPLICABLE.get(i, "check under construction in this round (DESIGN.md section 9 build order); not claimed until its theorem and correspondence run")})
json.dump(m, open(os.path.join(V, "MANIFEST.json"), "w"), indent=1)
print("claimed:", [c["property_id"] for c in m["checks"]])
