#!/bin/bash
# development aid (not used by any registered command): needs the scratch copy /tmp/verif2 + worktree /tmp/repo2 described in DESIGN.md §9; try2.sh <seeded name> <property id> [tier]
NAME=$1; PID=$2; TIER=${3:-quick}
cd /tmp/verif2
export VERIF_REPO=/tmp/repo2
git -C /tmp/repo2 diff --quiet || { echo "repo2 dirty"; exit 2; }
if [ "$NAME" != clean ]; then git -C /tmp/repo2 apply /verif/seeded/$NAME/patch.diff || exit 2; fi
./check $PID --tier $TIER > /tmp/try2_$NAME.log 2>&1; RC=$?
git -C /tmp/repo2 checkout -- .
grep -h "VIOLATION\|KNOWN-FINDING\|^OK" /tmp/try2_$NAME.log | cut -c1-300 | head -8
echo "== $NAME on $PID: rc=$RC"
