#!/bin/bash
# usage: dbg_mgr.sh file idx [lines]
D=$(dirname $1); cd $D
sed '/^Definition bad/,$d' $(basename $1) > dbg_tmp.v
cat >> dbg_tmp.v <<EOT
Eval vm_compute in (option_map (fun c : mgr_case => let '(tag, cfg, env, orders, mem, tr, t0, files, next, fa, panicked, emerge, maint) := c in
  (next, fa, panicked, emerge, maint, files,
  match replay (handler tag cfg (with_morder env (hd [] orders)) mem) (init_rstate tr t0 files) with
  | RDone (GNext n, m') rs => (1, Some n, map te_idx (r_rest rs), am_failed_at (mm_an m'), r_files rs, firstn 6 (r_sites rs))
  | RDone (GTail tc, m') rs => (2, None, map te_idx (r_rest rs), am_failed_at (mm_an m'), r_files rs, firstn 6 (r_sites rs))
  | RPanic s rs => (3, None, map te_idx (r_rest rs), [], r_files rs, firstn 6 (r_sites rs))
  | RMismatch s c g rs => (4, None, map te_idx (r_rest rs), [], r_files rs, s :: firstn 6 (r_sites rs))
  end, match replay (handler tag cfg (with_morder env (hd [] orders)) mem) (init_rstate tr t0 files) with RMismatch s c g rs => Some (c, option_map (fun e => (te_idx e, te_call e)) g) | _ => None end)) (nth_error cases $2)).
EOT
coqc -Q /verif/coq Mysync -w none dbg_tmp.v 2>&1 | tail -${3:-40}
