#!/bin/bash
# usage: dbg_case.sh <cases.v> <idx> <coq expr over variable c>   e.g. 'let (q, la) := c in ...'
F=$1; I=$2; EXPR=$3
D=$(dirname $F)
sed '/^Definition bad/,$d' $F > $D/dbg_tmp.v
cat >> $D/dbg_tmp.v <<EOT
Eval vm_compute in (option_map (fun c => $EXPR) (nth_error cases $I)).
EOT
cd $D && coqc -Q /verif/coq Mysync -w none dbg_tmp.v 2>&1 | tail -${4:-60}
