#!/bin/bash
# usage: dbg.sh file.v line  -> show goals at that line (runs coqtop on prefix)
F=$1; L=$2
head -n $L $F > /tmp/dbg_prefix.v
(cat /tmp/dbg_prefix.v; echo "Show.") | coqtop -Q /verif/coq Mysync -w none 2>&1 | tail -${3:-40}
