// gotrans: translate the integer/boolean fragment of
// internal/mysql/switch_helper.go into Gallina (Coq 8.16).
//
// Accepted fragment (anything else is a loud failure, handled by the driver as
// a broken tie):
//   - methods on *SwitchHelper named in `wanted`
//   - parameters of type []string (only used through len()) and int
//   - results int or error
//   - statements:  x := e | return e | if c { block } [else { block }]
//   - expressions: int literals, identifiers, + - * / %, comparisons, && || !,
//     len(x), min(a,b), max(a,b), sh.field, sh.Method(args), nil,
//     fmt.Errorf(...) (= the error result)
//
// Go int is modelled as Z, `/` as Z.quot, `%` as Z.rem (Go truncates).
// error results are modelled as bool: true = nil.
package main

import (
	"fmt"
	"go/ast"
	"go/parser"
	"go/token"
	"os"
	"sort"
	"strings"
)

var wanted = map[string]string{
	"GetRequiredWaitSlaveCount": "required_wsc",
	"GetFailoverQuorum":         "failover_quorum",
	"CheckFailoverQuorum":       "check_quorum",
}

// receiver fields -> (Coq projection, type)
var fields = map[string][2]string{
	"rplSemiSyncMasterWaitForSlaveCount": {"sh_w", "Z"},
	"SemiSync":                           {"sh_semisync", "bool"},
}

type tr struct {
	recv   string
	slices map[string]bool // []string params (only len allowed)
	fset   *token.FileSet
}

func die(fset *token.FileSet, n ast.Node, f string, a ...any) {
	pos := ""
	if n != nil {
		pos = fset.Position(n.Pos()).String() + ": "
	}
	fmt.Fprintf(os.Stderr, "gotrans: %s%s\n", pos, fmt.Sprintf(f, a...))
	os.Exit(2)
}

func (t *tr) expr(e ast.Expr) (string, string) { // (coq, type: Z|bool|err)
	switch x := e.(type) {
	case *ast.ParenExpr:
		return t.expr(x.X)
	case *ast.BasicLit:
		if x.Kind != token.INT {
			die(t.fset, e, "unsupported literal %s", x.Value)
		}
		return "(" + x.Value + ")%Z", "Z"
	case *ast.Ident:
		switch x.Name {
		case "nil":
			return "true", "err"
		case "true", "false":
			return x.Name, "bool"
		}
		if t.slices[x.Name] {
			die(t.fset, e, "slice %s used other than through len()", x.Name)
		}
		return "v_" + x.Name, "?"
	case *ast.SelectorExpr:
		if id, ok := x.X.(*ast.Ident); ok && id.Name == t.recv {
			f, ok := fields[x.Sel.Name]
			if !ok {
				die(t.fset, e, "unknown receiver field %s", x.Sel.Name)
			}
			return "(" + f[0] + " sh)", f[1]
		}
		die(t.fset, e, "unsupported selector")
	case *ast.UnaryExpr:
		a, _ := t.expr(x.X)
		switch x.Op {
		case token.NOT:
			return "(negb " + a + ")", "bool"
		case token.SUB:
			return "(- " + a + ")%Z", "Z"
		}
		die(t.fset, e, "unsupported unary %s", x.Op)
	case *ast.BinaryExpr:
		a, _ := t.expr(x.X)
		b, _ := t.expr(x.Y)
		switch x.Op {
		case token.ADD:
			return "(" + a + " + " + b + ")%Z", "Z"
		case token.SUB:
			return "(" + a + " - " + b + ")%Z", "Z"
		case token.MUL:
			return "(" + a + " * " + b + ")%Z", "Z"
		case token.QUO:
			return "(Z.quot " + a + " " + b + ")", "Z"
		case token.REM:
			return "(Z.rem " + a + " " + b + ")", "Z"
		case token.LSS:
			return "(" + a + " <? " + b + ")%Z", "bool"
		case token.LEQ:
			return "(" + a + " <=? " + b + ")%Z", "bool"
		case token.GTR:
			return "(" + b + " <? " + a + ")%Z", "bool"
		case token.GEQ:
			return "(" + b + " <=? " + a + ")%Z", "bool"
		case token.EQL:
			return "(" + a + " =? " + b + ")%Z", "bool"
		case token.NEQ:
			return "(negb (" + a + " =? " + b + ")%Z)", "bool"
		case token.LAND:
			return "(" + a + " && " + b + ")%bool", "bool"
		case token.LOR:
			return "(" + a + " || " + b + ")%bool", "bool"
		}
		die(t.fset, e, "unsupported binary %s", x.Op)
	case *ast.CallExpr:
		switch f := x.Fun.(type) {
		case *ast.Ident:
			switch f.Name {
			case "len":
				if len(x.Args) == 1 {
					if id, ok := x.Args[0].(*ast.Ident); ok && t.slices[id.Name] {
						return "len_" + id.Name, "Z"
					}
				}
				die(t.fset, e, "len of non-parameter")
			case "min", "max":
				if len(x.Args) < 2 {
					die(t.fset, e, "%s needs >= 2 args", f.Name)
				}
				acc, _ := t.expr(x.Args[0])
				for _, a := range x.Args[1:] {
					s, _ := t.expr(a)
					acc = "(Z." + f.Name + " " + acc + " " + s + ")"
				}
				return acc, "Z"
			}
			die(t.fset, e, "unsupported call %s", f.Name)
		case *ast.SelectorExpr:
			if id, ok := f.X.(*ast.Ident); ok {
				if id.Name == "fmt" && f.Sel.Name == "Errorf" {
					return "false", "err"
				}
				if id.Name == t.recv {
					name, ok := wanted[f.Sel.Name]
					if !ok {
						die(t.fset, e, "call of untranslated method %s", f.Sel.Name)
					}
					args := []string{}
					for _, a := range x.Args {
						if aid, ok := a.(*ast.Ident); ok && t.slices[aid.Name] {
							args = append(args, "len_"+aid.Name)
							continue
						}
						s, _ := t.expr(a)
						args = append(args, s)
					}
					return "(" + name + " sh " + strings.Join(args, " ") + ")", "Z"
				}
			}
			die(t.fset, e, "unsupported method call")
		}
	}
	die(t.fset, e, "unsupported expression %T", e)
	return "", ""
}

// block translates stmts; rest is the translation of what follows the block
// ("" = nothing follows: falling off the end is an error).
func (t *tr) block(stmts []ast.Stmt, rest string) string {
	if len(stmts) == 0 {
		if rest == "" {
			die(t.fset, nil, "control reaches end of function without return")
		}
		return rest
	}
	s := stmts[0]
	tail := func() string { return t.block(stmts[1:], rest) }
	switch x := s.(type) {
	case *ast.ReturnStmt:
		if len(x.Results) != 1 {
			die(t.fset, s, "return with %d results", len(x.Results))
		}
		r, _ := t.expr(x.Results[0])
		return r
	case *ast.AssignStmt:
		if len(x.Lhs) != 1 || len(x.Rhs) != 1 || (x.Tok != token.DEFINE && x.Tok != token.ASSIGN) {
			die(t.fset, s, "unsupported assignment")
		}
		id, ok := x.Lhs[0].(*ast.Ident)
		if !ok {
			die(t.fset, s, "unsupported assignment target")
		}
		r, _ := t.expr(x.Rhs[0])
		return "(let v_" + id.Name + " := " + r + " in " + tail() + ")"
	case *ast.IfStmt:
		if x.Init != nil {
			die(t.fset, s, "if with init")
		}
		c, _ := t.expr(x.Cond)
		after := ""
		if len(stmts) > 1 || rest != "" {
			after = tail()
		}
		th := t.block(x.Body.List, after)
		el := after
		if x.Else != nil {
			switch eb := x.Else.(type) {
			case *ast.BlockStmt:
				el = t.block(eb.List, after)
			case *ast.IfStmt:
				el = t.block([]ast.Stmt{eb}, after)
			}
		}
		if el == "" {
			die(t.fset, s, "if without else at end of function")
		}
		return "(if " + c + " then " + th + " else " + el + ")"
	}
	die(t.fset, s, "unsupported statement %T", s)
	return ""
}

func main() {
	if len(os.Args) != 3 {
		fmt.Fprintln(os.Stderr, "usage: gotrans <switch_helper.go> <out.v>")
		os.Exit(2)
	}
	fset := token.NewFileSet()
	f, err := parser.ParseFile(fset, os.Args[1], nil, 0)
	if err != nil {
		fmt.Fprintln(os.Stderr, "gotrans:", err)
		os.Exit(2)
	}
	defs := map[string]string{}
	for _, d := range f.Decls {
		fd, ok := d.(*ast.FuncDecl)
		if !ok || fd.Recv == nil || fd.Body == nil {
			continue
		}
		name, ok := wanted[fd.Name.Name]
		if !ok {
			continue
		}
		t := &tr{slices: map[string]bool{}, fset: fset}
		if len(fd.Recv.List) != 1 || len(fd.Recv.List[0].Names) != 1 {
			die(fset, fd, "bad receiver")
		}
		t.recv = fd.Recv.List[0].Names[0].Name
		params := []string{}
		for _, p := range fd.Type.Params.List {
			for _, n := range p.Names {
				switch pt := p.Type.(type) {
				case *ast.ArrayType:
					if id, ok := pt.Elt.(*ast.Ident); ok && id.Name == "string" && pt.Len == nil {
						t.slices[n.Name] = true
						params = append(params, "(len_"+n.Name+" : Z)")
						continue
					}
					die(fset, p, "unsupported parameter type")
				case *ast.Ident:
					if pt.Name == "int" {
						params = append(params, "(v_"+n.Name+" : Z)")
						continue
					}
					die(fset, p, "unsupported parameter type %s", pt.Name)
				default:
					die(fset, p, "unsupported parameter type")
				}
			}
		}
		if fd.Type.Results == nil || len(fd.Type.Results.List) != 1 {
			die(fset, fd, "need exactly one result")
		}
		rt := "Z"
		if id, ok := fd.Type.Results.List[0].Type.(*ast.Ident); ok && id.Name == "error" {
			rt = "bool"
		} else if ok && id.Name != "int" {
			die(fset, fd, "unsupported result type %s", id.Name)
		}
		body := t.block(fd.Body.List, "")
		defs[name] = fmt.Sprintf("Definition %s (sh : switch_helper) %s : %s :=\n  %s.\n", name, strings.Join(params, " "), rt, body)
	}
	missing := []string{}
	for g, c := range wanted {
		if _, ok := defs[c]; !ok {
			missing = append(missing, g)
		}
	}
	sort.Strings(missing)
	if len(missing) > 0 {
		fmt.Fprintf(os.Stderr, "gotrans: methods not found: %v\n", missing)
		os.Exit(2)
	}
	var b strings.Builder
	b.WriteString("(* GENERATED by /verif/tools/gotrans from internal/mysql/switch_helper.go - do not edit *)\n")
	b.WriteString("From Coq Require Import ZArith Bool.\nOpen Scope Z_scope.\n\n")
	b.WriteString("Record switch_helper := { sh_w : Z; sh_semisync : bool }.\n\n")
	// dependency order: required, quorum, check
	for _, n := range []string{"required_wsc", "failover_quorum", "check_quorum"} {
		b.WriteString(defs[n])
		b.WriteString("\n")
	}
	old, _ := os.ReadFile(os.Args[2])
	if string(old) != b.String() {
		if err := os.WriteFile(os.Args[2], []byte(b.String()), 0o644); err != nil {
			fmt.Fprintln(os.Stderr, "gotrans:", err)
			os.Exit(2)
		}
	}
}
