module gotrans

go 1.21
