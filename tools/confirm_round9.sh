#!/bin/bash
# usage: confirm_round4.sh <ID>  -- confirm /tmp/mut10/OUT/<ID> as seeded/<ID>-C
ID=$1; SRC=/tmp/mut10/OUT/$ID
python3 - <<PY > $SRC/demo_path.txt
import json,re
c=json.load(open('$SRC/meta.json'))['demo_cmd']
m=re.findall(r'(internal/[A-Za-z0-9_/]+)/?\s',c)
print((m[0] if m else 'internal/app').rstrip('/')+'/')
PY
rm -f $SRC/property.txt.bak
/verif/tools/confirm_mutant.sh $SRC $ID-${2:-J} 2>&1 | tail -5
