#!/bin/bash
F=$1; I=$2
sed '/^Definition bad/,$d' $F > $(dirname $F)/dbg_tmp.v
cat >> $(dirname $F)/dbg_tmp.v <<EOT
Eval vm_compute in (option_map (fun c : repair_case => let '(cfg, env, orders, mem, tr, mem', emerge, t0, panicked) := c in
  (orders, mem, mem', map (fun e => (te_idx e, te_call e, te_resp e)) tr,
   map (fun o => match replay (repair_cluster cfg (with_rorder env o) mem) (init_rstate tr t0 []) with
    | RDone m rs => (0, Some m, None, None, map (fun e => (te_idx e, te_call e)) (r_rest rs))
    | RPanic s rs => (1, None, Some (s, Now), None, [])
    | RMismatch s c g rs => (2, None, Some (s, c), option_map (fun e => (te_idx e, te_call e, te_resp e)) g, map (fun e => (te_idx e, te_call e)) (firstn 5 (r_rest rs))) end) (firstn 2 orders))) (nth_error cases $I)).
EOT
cd $(dirname $F) && coqc -Q /verif/coq Mysync -w none dbg_tmp.v 2>&1 | tail -${3:-70}
