#!/bin/bash
# usage: try_mutant.sh <seeded name> <property id> [tier]   — applies seeded/<name>/patch.diff to /repo, runs ./check, reverts.
NAME=$1; PID=$2; TIER=${3:-quick}
cd /verif
git -C /repo diff --quiet || { echo "/repo dirty"; exit 2; }
git -C /repo apply /verif/seeded/$NAME/patch.diff || exit 2
./check $PID --tier $TIER > /tmp/try_$NAME.log 2>&1; RC=$?
git -C /repo checkout -- .
tail -4 /tmp/try_$NAME.log | cut -c1-400
echo "== $NAME on $PID: rc=$RC"
