#!/bin/bash
# every check in the thorough tier on the clean tree; result in seeded/THOROUGH.txt
cd /verif
OUT=/verif/seeded/THOROUGH.txt
IDS="$*"
if [ -z "$IDS" ]; then IDS=$(python3 -c "import json;print(' '.join(c['property_id'] for c in json.load(open('MANIFEST.json'))['checks']))"); : > $OUT; fi
echo "# $(date -u +%FT%TZ) tier=thorough repo=$(git -C /repo rev-parse --short HEAD) verif=$(git rev-parse --short HEAD) ids=$IDS" >> $OUT
for id in $IDS; do
  s=$(date +%s); ./check $id --tier thorough > work/thorough_$id.log 2>&1; rc=$?
  echo "$id rc=$rc $(( $(date +%s) - s ))s | $(grep -c '^KNOWN-FINDING' work/thorough_$id.log) known | $(tail -1 work/thorough_$id.log | cut -c1-160)" >> $OUT
done
echo "# done $(date -u +%FT%TZ)" >> $OUT
