"""Shared machinery for /verif/check: Coq build, Go harness via overlay, case
evaluation, violation protocol, evidence."""
import concurrent.futures as cf
import fcntl
import glob
import json
import os
import re
import shutil
import subprocess
import sys
import time

VERIF = os.path.dirname(os.path.dirname(os.path.abspath(__file__)))
REPO = os.environ.get("VERIF_REPO", "/repo")
COQ = os.path.join(VERIF, "coq")
WORK = os.path.join(VERIF, "work")
HARNESS = os.path.join(VERIF, "harness")
EVID = os.path.join(VERIF, "evidence")

FORBIDDEN = re.compile(
    r"\b(Admitted|admit|Axiom|Axioms|Parameter|Parameters|Conjecture|Abort All|"
    r"Unset Guard Checking|Unset Positivity Checking|Unset Universe Checking|bypass_check|"
    r"Admit Obligations|native_compute|type-in-type|impredicative-set)\b")

# axioms from the standard library that a theorem may depend on (all named in
# DESIGN.md section 6); anything else fails the check
ALLOWED_AXIOMS = set()


def goenv():
    e = dict(os.environ)
    e["GOFLAGS"] = "-mod=mod"
    e["GOPROXY"] = "off"
    e.pop("GOSUMDB", None)
    e["GOTOOLCHAIN"] = "auto"
    e.setdefault("GOCACHE", os.path.join(os.path.expanduser("~"), ".cache", "go-build"))
    return e


class Lock:
    def __init__(self, name):
        os.makedirs(WORK, exist_ok=True)
        self.path = os.path.join(WORK, "." + name + ".lock")

    def __enter__(self):
        self.f = open(self.path, "w")
        fcntl.flock(self.f, fcntl.LOCK_EX)
        return self

    def __exit__(self, *a):
        fcntl.flock(self.f, fcntl.LOCK_UN)
        self.f.close()


def sh(cmd, cwd=None, env=None, timeout=None):
    t0 = time.time()
    try:
        p = subprocess.run(cmd, cwd=cwd, env=env, timeout=timeout, stdout=subprocess.PIPE,
                           stderr=subprocess.STDOUT, text=True, errors="replace")
        return p.returncode, p.stdout, time.time() - t0
    except subprocess.TimeoutExpired as e:
        out = e.stdout or ""
        if isinstance(out, bytes):
            out = out.decode(errors="replace")
        return 124, out + "\n[timeout after %ss]" % timeout, time.time() - t0


# --------------------------------------------------------------------------
# translator (C12)

def build_gotrans():
    d = os.path.join(VERIF, "tools", "gotrans")
    exe = os.path.join(d, "gotrans")
    src = os.path.join(d, "main.go")
    if not os.path.exists(exe) or os.path.getmtime(exe) < os.path.getmtime(src):
        rc, out, _ = sh(["go", "build", "-o", "gotrans", "."], cwd=d, env=goenv(), timeout=300)
        if rc != 0:
            raise RuntimeError("building gotrans failed:\n" + out)
    return exe


def run_translator():
    """Regenerate coq/Generated/SwitchHelperGen.v from /repo. Returns (ok, log)."""
    exe = build_gotrans()
    os.makedirs(os.path.join(COQ, "Generated"), exist_ok=True)
    rc, out, _ = sh([exe, os.path.join(REPO, "internal/mysql/switch_helper.go"),
                     os.path.join(COQ, "Generated", "SwitchHelperGen.v")], timeout=60)
    return rc == 0, out


# --------------------------------------------------------------------------
# Coq

def coq_files():
    fs = []
    for l in open(os.path.join(COQ, "_CoqProject")):
        l = l.strip()
        if l.endswith(".v"):
            fs.append(l)
    return fs


def grep_forbidden():
    bad = []
    for f in coq_files():
        p = os.path.join(COQ, f)
        if not os.path.exists(p):
            continue
        txt = open(p).read()
        # strip comments (non-nested is enough: we never nest)
        txt2 = re.sub(r"\(\*.*?\*\)", "", txt, flags=re.S)
        for m in FORBIDDEN.finditer(txt2):
            bad.append("%s: %s" % (f, m.group(0)))
    return bad


def ensure_makefile():
    mk = os.path.join(COQ, "Makefile")
    cp = os.path.join(COQ, "_CoqProject")
    if not os.path.exists(mk) or os.path.getmtime(mk) < os.path.getmtime(cp):
        rc, out, _ = sh(["coq_makefile", "-f", "_CoqProject", "-o", "Makefile"], cwd=COQ, timeout=120)
        if rc != 0:
            raise RuntimeError("coq_makefile failed:\n" + out)
    gen = os.path.join(COQ, "Generated", "SwitchHelperGen.v")
    if not os.path.exists(gen):
        ok, out = run_translator()
        if not ok:
            raise RuntimeError("translator failed and no generated file exists:\n" + out)


def coq_make(targets, timeout=1500, jobs=16):
    """Full .vo build of the given targets (and their dependencies)."""
    with Lock("coq"):
        ensure_makefile()
        rc, out, dt = sh(["make", "-j%d" % jobs] + targets, cwd=COQ, timeout=timeout)
    return rc == 0, out, dt


def coqchk(pid, timeout=2400):
    """Independent re-check of Properties/<pid>.vo and everything it depends on with coqchk; returns
    (ok, axioms line, tail of the output)."""
    with Lock("coq"):
        rc, out, dt = sh(["coqchk", "-silent", "-o", "-Q", ".", "Mysync", "Mysync.Properties.%s" % pid], cwd=COQ, timeout=timeout)
    m = re.search(r"\* Axioms:\s*(.*?)\n\s*\n", out, flags=re.S)
    axioms = m.group(1).strip() if m else None
    clean = rc == 0 and axioms == "<none>" and all(
        re.search(r"\* %s:\s*<none>" % re.escape(k), out) for k in
        ("Constants/Inductives relying on type-in-type", "Constants/Inductives relying on unsafe (co)fixpoints", "Inductives whose positivity is assumed"))
    return clean, axioms, out[-1500:], dt


def coq_check_properties(pid, timeout=1500):
    """Build everything Properties/<pid>.v needs, then re-check that file and
    collect `Print Assumptions` output.  Returns dict."""
    vfile = "Properties/%s.v" % pid
    res = {"file": vfile, "ok": False, "log": "", "theorems": [], "assumptions": {}, "wall_s": 0.0}
    src = open(os.path.join(COQ, vfile)).read()
    src_nc = re.sub(r"\(\*.*?\*\)", "", src, flags=re.S)
    res["theorems"] = re.findall(r"^\s*Theorem\s+(\w+)", src_nc, flags=re.M)
    with Lock("coq"):
        ensure_makefile()
        vo = os.path.join(COQ, vfile + "o")
        if os.path.exists(vo):
            os.remove(vo)
        rc, out, dt = sh(["make", "-j16", vfile + "o"], cwd=COQ, timeout=timeout)
    res["log"] = out
    res["wall_s"] = dt
    if rc != 0:
        m = re.search(r'File "\./([^"]+)", line (\d+)', out)
        res["failed_file"] = m.group(1) if m else None
        res["failed_line"] = int(m.group(2)) if m else None
        return res
    # Print Assumptions blocks come in the order of the theorems
    blocks = re.split(r"(?m)^(?=Closed under the global context|Axioms:)", out)
    blocks = [b for b in blocks if b.startswith("Closed under") or b.startswith("Axioms:")]
    printed = re.findall(r"^\s*Print Assumptions\s+(\w+)", src_nc, flags=re.M)
    for name, b in zip(printed, blocks):
        if b.startswith("Closed under"):
            res["assumptions"][name] = []
        else:
            axs = re.findall(r"^(\S+)\s*:", b[len("Axioms:"):], flags=re.M)
            res["assumptions"][name] = axs
    missing = [t for t in res["theorems"] if t not in res["assumptions"]]
    res["missing_print_assumptions"] = missing
    bad_ax = sorted({a for axs in res["assumptions"].values() for a in axs if a not in ALLOWED_AXIOMS})
    res["bad_axioms"] = bad_ax
    res["forbidden"] = grep_forbidden()
    res["ok"] = not missing and not bad_ax and not res["forbidden"]
    return res


def coqc_cases(path, timeout=900):
    d = os.path.dirname(path)
    rc, out, dt = sh(["coqc", "-Q", COQ, "Mysync", "-w", "-notation-overridden,-deprecated-hint-without-locality,-ambiguous-paths,-abstract-large-number",
                      os.path.basename(path)], cwd=d, timeout=timeout)
    res = {"file": os.path.basename(path), "rc": rc, "wall_s": dt, "bad": None, "extra": {}}
    if rc != 0:
        res["log"] = out[-3000:]
        return res
    flat = re.sub(r"\s+", " ", out)
    m = re.search(r"bad = (\[.*?\])\s*: list", flat)
    if not m:
        res["log"] = out[-3000:]
        res["rc"] = 3
        return res
    res["bad"] = [int(x) for x in re.findall(r"(\d+)%N", m.group(1))] if m.group(1) != "[]" else []
    if m.group(1) != "[]" and not res["bad"]:
        res["bad"] = [int(x) for x in re.findall(r"\d+", m.group(1))]
    # extra printed definitions:  name = value : type
    for mm in re.finditer(r"(cov_\w+|stat_\w+) = (.*?) : ", flat):
        res["extra"][mm.group(1)] = mm.group(2)
    return res


def run_cases(outdir, jobs=16):
    files = sorted(glob.glob(os.path.join(outdir, "*.v")))
    with cf.ThreadPoolExecutor(max_workers=jobs) as ex:
        return list(ex.map(coqc_cases, files))


# --------------------------------------------------------------------------
# Go harness

def build_overlay():
    rep = {}
    for root, _, files in os.walk(HARNESS):
        for f in files:
            if not f.endswith(".go"):
                continue
            src = os.path.join(root, f)
            rel = os.path.relpath(src, HARNESS)
            rep[os.path.join(REPO, rel)] = src
    os.makedirs(WORK, exist_ok=True)
    p = os.path.join(WORK, "overlay.json")
    tmp = p + ".%d" % os.getpid()
    json.dump({"Replace": rep}, open(tmp, "w"), indent=1)
    os.replace(tmp, p)
    return p


def run_go(pkg, test, outdir, tier, seed, timeout=1500, replay=None, race=False, extra_env=None):
    ov = build_overlay()
    os.makedirs(outdir, exist_ok=True)
    env = goenv()
    env["VERIF_OUT"] = outdir
    env["VERIF_TIER"] = tier
    env["VERIF_SEED"] = str(seed)
    if replay:
        env["VERIF_REPLAY"] = os.path.abspath(replay)
    cdir = os.path.join(VERIF, "corpus", os.path.basename(outdir.rstrip("/")) if not outdir.rstrip("/").endswith("search") else os.path.basename(os.path.dirname(outdir.rstrip("/"))))
    if os.path.isdir(cdir):
        env["VERIF_CORPUS"] = cdir
    if extra_env:
        env.update(extra_env)
    cmd = ["go", "test", "-overlay=" + ov, "-tags", "verif", "-vet=off", "-count=1",
           "-timeout", "%ds" % timeout, "-run", "^" + test + "$"]
    if race:
        cmd.append("-race")
    cmd.append(pkg)
    rc, out, dt = sh(cmd, cwd=REPO, env=env, timeout=timeout + 60)
    return rc, out, dt


def load_metas(outdir):
    metas = {}
    for p in sorted(glob.glob(os.path.join(outdir, "*.meta.json"))):
        metas[os.path.basename(p)[:-len(".meta.json")]] = json.load(open(p))
    return metas


# --------------------------------------------------------------------------
# known findings

def known_findings(pid):
    p = os.path.join(VERIF, "KNOWN_FINDINGS.json")
    if not os.path.exists(p):
        return []
    return [f for f in json.load(open(p)).get("findings", []) if f.get("property") == pid and f.get("status") == "open"]


def finding_matches(f, v):
    """A finding lists `clause` and optional `signature` (dict of key -> value
    that must equal the violation's signature entries)."""
    if f.get("clause") != v.get("clause"):
        return False
    sig = f.get("signature", {})
    vs = v.get("signature", {})
    # a list in the finding = any of these values (e.g. the calls whose failure opens the known window)
    return all((vs.get(k) in val) if isinstance(val, list) else (vs.get(k) == val) for k, val in sig.items())


# --------------------------------------------------------------------------
# evidence

def write_evidence(pid, tier, seed, coverage, assumptions, wall, violations):
    os.makedirs(EVID, exist_ok=True)
    ev = {"property_id": pid, "tier": tier, "seed": seed, "level": "proof", "coverage": coverage,
          "assumptions": assumptions, "wall_s": round(wall, 2), "violations": violations}
    p = os.path.join(EVID, pid + ".json")
    tmp = p + ".tmp"
    json.dump(ev, open(tmp, "w"), indent=1, default=str)
    os.replace(tmp, p)
    return p
