import json
import os
import shutil
import time

import vlib

TRUSTED_COMMON = [
    "Coq 8.16.1 kernel + its bytecode VM (vm_compute); no native_compute",
    "no axioms declared; Print Assumptions of every property theorem is checked to be 'Closed under the global context' on every run",
    "hand-written Gallina model tied to the code only by the correspondence check on the generated inputs (coverage reported here)",
    "go test -overlay injection, the Go harness/fakes in /verif/harness, the case-file printer and this driver",
]


def _replay_path(outdir, name):
    return os.path.join(outdir, name)


def _write_replay(outdir, name, obj):
    p = _replay_path(outdir, name)
    json.dump(obj, open(p, "w"), indent=1, default=str)
    return p


def run_harnesses(pid, cfg, outdir, tier, seed, replay=None):
    res = []
    for h in cfg.get("harness", []):
        cur_file = os.path.join(outdir, "running.json")
        if os.path.exists(cur_file):
            os.remove(cur_file)
        rc, out, dt = vlib.run_go(h["pkg"], h["test"], outdir, tier, seed, timeout=h.get("timeout", 1500),
                                  replay=replay, race=h.get("race", False) and (tier == "thorough" or h.get("race_quick", False)))
        running = None
        if rc != 0:
            try:
                running = json.load(open(cur_file))
            except Exception:
                running = None
        res.append({"pkg": h["pkg"], "test": h["test"], "rc": rc, "wall_s": round(dt, 2), "race": h.get("race", False),
                    "log_tail": out[-4000:] if rc != 0 else "", "log_full": out[-200000:] if rc != 0 else "", "running": running})
    return res


def collect_violations(metas):
    vs = []
    for name, m in metas.items():
        for v in m.get("violations") or []:
            v = dict(v)
            v["harness"] = name
            vs.append(v)
    return vs


def split_known(pid, vs):
    kf = vlib.known_findings(pid)
    known, unknown = [], []
    for v in vs:
        hit = next((f for f in kf if vlib.finding_matches(f, v)), None)
        (known if hit else unknown).append((v, hit))
    return known, unknown


def run_property(pid, cfg, tier, seed, replay):
    t0 = time.time()
    outdir = os.path.join(vlib.WORK, pid)
    shutil.rmtree(outdir, ignore_errors=True)
    os.makedirs(outdir, exist_ok=True)

    # ---------------- replay mode: re-run one recorded input on the implementation
    if replay:
        rp = json.load(open(replay))
        if rp.get("kind") == "input":
            hs = run_harnesses(pid, cfg, outdir, tier, seed, replay=replay)
            metas = vlib.load_metas(outdir)
            vs = collect_violations(metas)
            known, unknown = split_known(pid, vs)
            for v, f in known:
                print("KNOWN-FINDING: property=%s %s" % (pid, f.get("what", v.get("clause"))))
            bad_h = [h for h in hs if h["rc"] != 0]
            if unknown or bad_h:
                for v, _ in unknown[:3]:
                    print("replayed violation:", json.dumps(v)[:600])
                for h in bad_h:
                    print(h["log_tail"])
                print("VIOLATION property=%s replay=%s" % (pid, replay))
                return 1
            print("replay: property held on this input")
            return 0
        # a replay file that names a theorem/correspondence: re-run the whole check
        print("replay file names %s; re-running the full check" % rp.get("kind"))

    broken = []      # list of {kind, what, detail}
    notes = []

    # ---------------- 1. translator
    if cfg.get("translator"):
        ok, log = vlib.run_translator()
        if not ok:
            broken.append({"kind": "translator", "what": "tools/gotrans could not translate internal/mysql/switch_helper.go",
                           "detail": log[-2000:]})

    # ---------------- 2. proofs
    proof = vlib.coq_check_properties(pid)
    if not proof["ok"]:
        what = "Properties/%s.v (theorems %s) no longer checks" % (pid, ", ".join(proof["theorems"]))
        if proof.get("failed_file"):
            what += "; first failing file %s line %s" % (proof["failed_file"], proof.get("failed_line"))
        if proof.get("bad_axioms"):
            what += "; unexpected axioms %s" % proof["bad_axioms"]
        if proof.get("forbidden"):
            what += "; forbidden vernacular %s" % proof["forbidden"]
        if proof.get("missing_print_assumptions"):
            what += "; no Print Assumptions for %s" % proof["missing_print_assumptions"]
        broken.append({"kind": "theorem", "what": what, "detail": proof["log"][-3000:]})

    chk = None
    if proof["ok"] and tier == "thorough":
        ok, axioms, tail, dt = vlib.coqchk(pid)
        chk = {"cmd": "coqchk -silent -o -Q . Mysync Mysync.Properties.%s" % pid, "clean": ok, "axioms": axioms, "wall_s": round(dt, 1)}
        if not ok:
            broken.append({"kind": "theorem", "what": "coqchk does not accept Properties/%s.vo cleanly (axioms: %s)" % (pid, axioms), "detail": tail})

    # ---------------- 3. correspondence: build checkers, run harness, evaluate cases
    corr_ok = True
    if cfg.get("corr"):
        ok, log, _ = vlib.coq_make(cfg["corr"])
        if not ok:
            corr_ok = False
            broken.append({"kind": "correspondence", "what": "correspondence checkers %s do not build" % cfg["corr"],
                           "detail": log[-3000:]})
    hs = run_harnesses(pid, cfg, outdir, tier, seed)
    crash_violations = []
    for h in hs:
        if h["rc"] != 0:
            # for properties about the robustness of the process itself, the death of the harness process inside the
            # code under test IS the failing history: report it with the runtime's own message as the replay
            sig = None
            for needle, clause in cfg.get("crash_signatures", []):
                if needle in (h.get("log_full") or h["log_tail"]):
                    sig = (needle, clause)
                    break
            if sig:
                log = h.get("log_full") or h["log_tail"]
                at = log.find(sig[0])
                inp = {"rerun_harness_test": h["test"], "package": h["pkg"], "race_detector": bool(h.get("race"))}
                # the harness records the input it is about to run: that is the one that killed the process
                cur = h.get("running")
                if cur and not h.get("race"):
                    inp = {cur["kind"]: cur["input"]} if cur.get("kind") not in (None, "mgr") else cur["input"]
                crash_violations.append({"clause": sig[1], "input": inp,
                                         "detail": log[max(0, at - 200):at + 1800], "harness": h["test"]})
            else:
                broken.append({"kind": "correspondence", "what": "harness %s %s failed to build or run against the current tree" % (h["pkg"], h["test"]),
                               "detail": h["log_tail"]})
    metas = vlib.load_metas(outdir)
    case_results = vlib.run_cases(outdir) if corr_ok else []
    mismatches = []
    for r in case_results:
        if r["rc"] != 0 or r["bad"] is None:
            broken.append({"kind": "correspondence", "what": "case file %s could not be evaluated" % r["file"], "detail": r.get("log", "")})
        elif r["bad"]:
            base = r["file"][:-2]
            inputs = None
            for m in metas.values():
                if base in (m.get("cases") or {}):
                    inputs = m["cases"][base]
            first = r["bad"][0]
            inp = inputs[first] if inputs and first < len(inputs) else None
            mismatches.append({"file": r["file"], "indices": r["bad"][:20], "count": len(r["bad"]), "first_input": inp})
            broken.append({"kind": "correspondence",
                           "what": "model and implementation disagree on %d case(s) of %s (first index %d)" % (len(r["bad"]), r["file"], first),
                           "detail": json.dumps(inp)[:1500]})

    # ---------------- 4. implementation-side monitors
    vs = collect_violations(metas) + crash_violations
    known, unknown = split_known(pid, vs)

    # ---------------- 5. broken proof/tie => search for a failing input
    searched = False
    if broken and not unknown and tier != "thorough" and cfg.get("harness"):
        searched = True
        sdir = os.path.join(outdir, "search")
        os.makedirs(sdir, exist_ok=True)
        run_harnesses(pid, cfg, sdir, "thorough", seed + 1)
        smetas = vlib.load_metas(sdir)
        svs = collect_violations(smetas)
        k2, u2 = split_known(pid, svs)
        unknown += u2
        notes.append("search: thorough generator re-run after broken proof/tie, %d monitor hits" % len(svs))

    rc = 0
    seen_known = {}
    for v, f in known:
        seen_known[f["id"]] = f
    for fid, f in sorted(seen_known.items()):
        print("KNOWN-FINDING: property=%s %s" % (pid, f.get("what", fid)))
    for f in vlib.known_findings(pid):
        if f["id"] not in seen_known:
            notes.append("listed finding %s was not re-observed on this run" % f["id"])
    if unknown:
        v = unknown[0][0]
        rp = _write_replay(outdir, "replay-violation.json",
                           {"kind": "input", "property": pid, "clause": v.get("clause"), "input": v.get("input"),
                            "detail": v.get("detail"), "signature": v.get("signature"), "harness": v.get("harness"),
                            "broken": [b["what"] for b in broken], "total_monitor_hits": len(unknown)})
        print("violated clause: %s" % v.get("clause"))
        print("detail: %s" % str(v.get("detail"))[:800])
        print("VIOLATION property=%s replay=%s" % (pid, rp))
        rc = 1
    elif broken:
        rp = _write_replay(outdir, "replay-broken.json",
                           {"kind": broken[0]["kind"], "property": pid, "no_longer_checks": [b["what"] for b in broken],
                            "detail": broken[0]["detail"], "mismatches": mismatches,
                            "searched": "monitors of the %s generator%s found no input on which the implementation violates the property" %
                                        (tier, " and of the thorough generator" if searched else "")})
        for b in broken[:5]:
            print("BROKEN %s: %s" % (b["kind"], b["what"]))
            if b["detail"]:
                print("   " + b["detail"][-1500:].replace("\n", "\n   "))
        print("VIOLATION property=%s replay=%s no-failing-input-found" % (pid, rp))
        rc = 1

    # ---------------- 6. evidence
    ev_eval = sum(m.get("evaluations", 0) for m in metas.values())
    ev_dist = sum(m.get("distinct_nontrivial", 0) for m in metas.values())
    samples = []
    for m in metas.values():
        samples += (m.get("samples") or [])[:4]
    samples.append({"theorems": proof["theorems"]})
    dist = {}
    for n, m in metas.items():
        for k, c in (m.get("distribution") or {}).items():
            dist[n + ":" + k] = c
    cov = {
        "obligations": len(proof["theorems"]),
        "discharged": len([t for t in proof["theorems"] if t in proof["assumptions"]]) if proof["ok"] else 0,
        "checker_cmd": "make -C /verif/coq Properties/%s.vo (coqc 8.16.1, full .vo build) ; coqc work/%s/*.v (vm_compute of observed cases against the model)" % (pid, pid),
        "trusted_base": TRUSTED_COMMON + cfg.get("trusted", []),
        "theorems": [{"name": t, "axioms": proof["assumptions"].get(t)} for t in proof["theorems"]],
        "theorem_status": cfg.get("theorem_status", {}),
        "coqchk": chk,
        "evaluations": ev_eval,
        "distinct_nontrivial": ev_dist,
        "rule": " | ".join(m.get("rule", "") for m in metas.values() if m.get("rule")),
        "samples": samples,
        "exhaustive": bool(metas) and all(m.get("exhaustive") for m in metas.values()),
        "input_distribution": dist,
        "correspondence": [{"file": r["file"], "rc": r["rc"], "mismatching": (len(r["bad"]) if r["bad"] is not None else None),
                            "wall_s": round(r["wall_s"], 2), "extra": r.get("extra")} for r in case_results],
        "harness_runs": [{k: h[k] for k in ("pkg", "test", "rc", "wall_s")} for h in hs],
        "monitor_hits": len(vs),
        "known_findings_reobserved": sorted(seen_known),
        "broken": [b["what"] for b in broken],
        "notes": notes + [n for m in metas.values() for n in (m.get("notes") or [])],
        "proof_build_wall_s": round(proof["wall_s"], 2),
    }
    vlib.write_evidence(pid, tier, seed, cov, cfg.get("assumptions", []), time.time() - t0, len(unknown))
    if rc == 0:
        print("OK property=%s tier=%s theorems=%d cases=%d wall=%.1fs" % (pid, tier, len(proof["theorems"]), ev_eval, time.time() - t0))
    return rc
