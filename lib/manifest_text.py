NOT_APPLICABLE = {}
TEXT = {
 "C12": {
  "text": "Seven Coq theorems (Properties/C12.v) prove, for ALL n >= 0 and w >= 0, every clause of the property (required count bounds, zero-iff, quorum >= 1, quorum+required > replicas, the pigeonhole intersection of any failover set with any acknowledging set, and the two comparison modes) about Gallina definitions that a translator regenerates from internal/mysql/switch_helper.go on every run; a K1 sweep additionally compares the real methods with the generated and hand-written models on a complete grid.",
  "note": "Trusted: Coq kernel+VM; tools/gotrans and Go's parser; Go int as unbounded Z with '/' = Z.quot (no overflow below 2^62); harness/driver. No axioms (Print Assumptions checked per run).",
  "technique": "Coq proof over translator-generated model (lia + list pigeonhole) + exhaustive differential table",
 },
 "C13": {
  "text": "Eleven Coq theorems over an executable model of go-mysql's interval slices / GTID sets and mysync's gtids package prove, for ALL well-formed sets (any number of uuids, tags, gaps) and all non-empty position lists: behind-or-equal <-> subset, ahead = negation, interval and set subtraction exact (and normal-form preserving), the four GTIDDiff messages <-> the four emptiness combinations with the reported sets equal to the two differences, subset => never split-brained, foreign extra transaction => split-brained, most-recent returns a member containing all others and reports split brain iff no such member exists. K1 correspondence runs the real parser and functions on all pairs over a small universe plus random large sets and checks them against the model inside Coq; an independent bitset monitor evaluates the property on the implementation.",
  "note": "Trusted: Coq kernel+VM; model of sort.Search (first match) and Normalize (insertion) by input/output; uuids/tags numbered by the harness; string rendering/parsing exercised not modelled; harness/driver. No axioms.",
  "technique": "Coq proof over hand-written executable model + differential (K1) correspondence with exhaustive small universe",
 },
 "C14": {
  "text": "Eight Coq theorems about the executable model of getMostPriorityNode/getMostDesirableNode/filterOutNodeFromPositions prove for ALL candidate lists and bounds >= 0: termination (fuel length+1 never exhausted), result is an offered candidate, error iff no candidate, never the from-host, top-priority-within-bound wins, otherwise top or fresher-by-more-than-bound, the top has maximal priority and no equal-priority candidate holds strictly more transactions, and coincidence with the most recent node under equal priorities and lags within the bound. K1 correspondence on random lists of 0-5 nodes (with a child-process termination probe); the less-lag tie-break among equal sets is covered by correspondence + monitor only.",
  "note": "Trusted: as C13; integer-valued lags (exact in float64); Go recursion modelled with fuel. No axioms.",
  "technique": "Coq proof (scan invariants, fuel termination) + differential (K1) correspondence",
 },
 "C08": {
  "text": "The lost-state handler (stateLost, checkHAReplicasRunning, stopReplicationOnMaster and the node.go methods they use) is modelled as a program over SQL statements. Coq theorems over ALL responses of ALL calls (hence all faults and crash prefixes): every call issued while disconnected is a read or one of {read-only, offline, semi-sync off, kill} on the local node - never a promotion, re-point, un-fence, coordination write or statement on another host; no-op cases issue nothing but the connectivity test; the decision fences iff not (master with live group) and not (unreachable replica within the inactivation delay), postponement is bounded by the delay; a fence decision starts with the read-only statement and any other decision issues nothing. K2 correspondence replays transcripts of the real stateLost (fake MySQL over the wire protocol, virtual time) through the model; an independent monitor evaluates the decision table on the implementation.",
  "note": "Trusted: Coq kernel+VM; the fake MySQL semantics (DESIGN App. C); synctest; harness/driver; Peek oracle for the kill-loop iteration count. No axioms.",
  "technique": "Coq proof over free-monad program model (oracle semantics, allcalls soundness) + transcript-replay (K2) correspondence",
 },
 "C18": {
  "text": "repairReadOnlyOnMaster is modelled as a pure decision (fold over the health records) plus an execution program. Coq theorems for ALL inputs: read-only is decided iff (master at/above critical, or running semi-sync replicas at critical exceed running - ack count) and the master is not already in the required mode, with super flag = not keep_super_writable; writable iff not needed, nobody in the grey zone and currently read-only; otherwise no statement at all; usage comparison = exact ratio; and for every response of every call: only the master is addressed, only with the decided statement, the low-space flag is written only right after the successful statement with the matching value. K2 correspondence replays the real function over fake MySQL; independent monitor re-derives the table.",
  "note": "Trusted: Coq kernel+VM; fakes; float/rational restriction (total=10000, exact thresholds); harness/driver. No axioms.",
  "technique": "Coq proof (decision iff by case analysis, allcalls soundness over oracle semantics) + K2 transcript replay",
 },
}
