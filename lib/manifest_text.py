NOT_APPLICABLE = {}
TEXT = {
 "C12": {
  "text": "Seven Coq theorems (Properties/C12.v) prove, for ALL n >= 0 and w >= 0, every clause of the property (required count bounds, zero-iff, quorum >= 1, quorum+required > replicas, the pigeonhole intersection of any failover set with any acknowledging set, and the two comparison modes) about Gallina definitions that a translator regenerates from internal/mysql/switch_helper.go on every run; a K1 sweep additionally compares the real methods with the generated and hand-written models on a complete grid.",
  "note": "Trusted: Coq kernel+VM; tools/gotrans and Go's parser; Go int as unbounded Z with '/' = Z.quot (no overflow below 2^62); harness/driver. No axioms (Print Assumptions checked per run).",
  "technique": "Coq proof over translator-generated model (lia + list pigeonhole) + exhaustive differential table",
 },
}
