"""Per-property configuration of ./check."""
APP = "./internal/app"
MYSQL = "./internal/mysql"
GTIDS = "./internal/mysql/gtids"
DCS = "./internal/dcs"
OPT = "./internal/app/optimization"

PROPS = {
    "C12": {
        "translator": True,
        "corr": ["Corr/C12.vo"],
        "harness": [{"pkg": MYSQL, "test": "TestVerifC12"}],
        "trusted": ["tools/gotrans (Go AST -> Gallina translator, ~300 lines) and Go's parser; Go int modelled as unbounded Z (64-bit overflow not modelled: list lengths are far below 2^62), '/' as Z.quot"],
        "assumptions": ["n = len(activeNodes) >= 0 and configured count w >= 0 (Go ints; w < 0 is not a meaningful configuration)"],
        "theorem_status": {"all": "full: proved for all n, w about the definitions regenerated from the source on this run"},
    },
    "C13": {
        "corr": ["Corr/C13.vo"],
        "harness": [{"pkg": APP, "test": "TestVerifC13"}],
        "trusted": ["go-mysql's sort.Search in IntervalSlice.Contain is modelled as first-match over the normalized slice, Normalize() as insertion into a normalized list (same input/output relation); uuids and tags are numbered by the harness; GTID string rendering/parsing is exercised but not modelled character by character"],
        "assumptions": ["sets are what ParseGTIDSet produces (wf: distinct uuids, >=1 tag per uuid, non-empty normalized slices) - checked per case by wfb in the correspondence"],
        "theorem_status": {"all": "full: proved for all well-formed GTID sets / all non-empty position lists"},
    },
    "C14": {
        "corr": ["Corr/C14.vo"],
        "harness": [{"pkg": APP, "test": "TestVerifC14"}],
        "trusted": ["lags/bound are float64 seconds in Go and Z in the model: the harness generates integer values only (exact in float64); the Go recursion is modelled with fuel length+1 (C14_terminates proves it is never exhausted)"],
        "assumptions": ["bound >= 0; GTID sets well-formed"],
        "theorem_status": {"C14_top_has_max_priority_and_most_transactions": "the 'then with less lag' tie-break among candidates with EQUAL sets is checked by the correspondence only (needs completeness of Equal; see DESIGN.md)", "others": "full"},
    },
    "C08": {
        "corr": ["Corr/C08.vo"],
        "harness": [{"pkg": APP, "test": "TestVerifC08"}],
        "trusted": ["fake MySQL servers (verifkit/fakemysql.go) and their reading of MySQL semantics (DESIGN.md App. C): SET read_only blocks while commits wait for a semi-sync ACK and fails with 1205 after lock_wait_timeout; a hung statement surfaces as context deadline; refused connection as transport error",
                    "testing/synctest virtual time; in-memory dcs.DCS for IsConnected",
                    "the kill loop of SetReadOnlyWithForce is modelled with a scheduling oracle (Peek) for its iteration count"],
        "assumptions": ["cluster registry (HA hosts, local host) is what the process cached before losing the coordination service"],
        "theorem_status": {"C08_never_unfences_never_touches_others": "full, for every response of every call (oracle semantics) and hence every crash prefix",
                           "C08_fence_iff / postpone": "full for the decision function; the link 'observed responses -> decision inputs' is the model's read phase, tied to the code by K2 replay"},
    },
    "C18": {
        "corr": ["Corr/C18.vo"],
        "harness": [{"pkg": APP, "test": "TestVerifC18"}],
        "trusted": ["fake MySQL + in-memory DCS; disk usage is float64 100*used/total in Go and an exact rational in the model: the harness uses total=10000 and thresholds with exact binary representation, so every comparison has the same outcome",
                    "config Validate/SetDynamicDefaults are not modelled (not_critical <= critical is generated, and the decision is single-valued anyway)"],
        "assumptions": ["health records and master state are the inputs the manager iteration passes in"],
        "theorem_status": {"all": "full for the decision function and for every response of every call of the execution part"},
    },
    "C04": {
        "corr": ["Corr/C04.vo"],
        "harness": [{"pkg": APP, "test": "TestVerifC04"}],
        "trusted": ["fake MySQL semantics for the semi-sync variables; in-memory DCS; manager view produced by the real getClusterStateFromDB in the harness",
                    "Go map iteration order in disableSemiSyncOnSlaves / the async branch is modelled as an unordered parallel step",
                    "(a)/(b) and the prefix-preservation clause are evaluated on the fake servers by the implementation-side monitor; 5 root causes are known findings"],
        "assumptions": ["hosts on recovery, master GTID and server uuid are what the calls return; binlog names have equal length (numeric order = string order)"],
        "theorem_status": {"C04_evict_needs_master / C04_membership / C04_update_footprint / C04_recovery_removes_from_list_first": "full (oracle semantics)",
                           "(a),(b) complete iteration, prefix preservation, no-lagging-member": "refuted on the real code: KNOWN_FINDINGS.json C04-R1..R5 (re-observed by the monitor on every run)"},
    },
    "C01": {
        "corr": ["Corr/C01.vo"],
        "harness": [{"pkg": APP, "test": "TestVerifC01"}],
        "trusted": ["fake MySQL semantics (DESIGN App. C): read-only + stopped IO thread keep executed/received sets; CHANGE SOURCE purges the relay log; replication threads of the fakes fetch/apply everything available when read",
                    "in-memory DCS incl. the manager lock; testing/synctest virtual time; force_switchover and external replication off; the semi-sync optimisation phase of planned switchovers is exercised under C19, planned switchovers here run with semi-sync off",
                    "goroutine completion order of getNodePositions is taken from the observed call order (Par joins hand results over in any order in the model)"],
        "assumptions": ["the reported GTID sets are well-formed (parser output)", "frozen members keep their sets (MySQL semantics) - checked on the fakes by the monitor at every SET read_only=0"],
        "theorem_status": {"C01_lock_reconfirmed_before_promotion, C01_splitbrain_*, C01_promotion_needs_catch_up, C01_most_recent_contains_every_frozen_position": "full over oracle semantics",
                           "ground-truth statement (frozen quorum at the instant of promotion on the servers)": "partial: decided by the monitor on the fake servers (no Coq world model of MySQL yet)",
                           "literal 'not totally ordered => abort'": "the code aborts iff no maximum exists (C01_splitbrain_iff_no_maximum); with a maximum and incomparable lower elements it promotes safely - a gap between the property text and the code, see DESIGN.md F11"},
    },
    "C17": {
        "corr": ["Corr/C17.vo"],
        "harness": [{"pkg": APP, "test": "TestVerifC17"}],
        "trusted": ["fake MySQL/DCS; zones computed by the real getAvailabilityZone and handed to the model as a map; the zone percentage floor(100*k/t) is float64 in Go and integer division in the model (equal for these magnitudes)",
                    "Go map iteration order of the pass is reconstructed from the observed host-specific calls; hosts that only read the shared rate limiter are tried at every position (the model must replay under one candidate order)",
                    "Seconds_Behind_Source is NULL when a replication thread is stopped, so the permanently-broken path is reachable only with a lag source that still reports (harness flag LagAlways)"],
        "assumptions": ["shares are evaluated on the manager's view of the pass (a master whose state could not be read counts as a replica of its zone)"],
        "theorem_status": {"all": "full over oracle semantics, for every order and every value of the per-pass counters; the at-most-one-per-interval clause for broken replicas is decided by the monitor across passes"},
    },
    "C10": {
        "corr": ["Corr/C10.vo"],
        "harness": [{"pkg": APP, "test": "TestVerifC10"}],
        "trusted": ["fake MySQL/DCS (verifkit); Go map iteration order of repairCluster reconstructed from host-specific calls with candidate orders; replication-repair state (attempt counters, cooldown) is handed to the model as a map and compared after every pass",
                    "perform_change_master(h,h) panics in the code (nil deref after an unreadable status) and in the model: the run is compared by its panicked flag (finding F5, see C20)"],
        "assumptions": ["cluster state of the pass is what getClusterStateFromDB returned (compared field by field)"],
        "theorem_status": {"C10_replica_repair_footprint / reset guards": "full over oracle semantics (every response of every call, hence every crash prefix)",
                           "convergence within three fault-free iterations": "partial: decided by the implementation-side monitor on the fake servers for every generated start state, not a Coq theorem (needs a MySQL world model)"},
    },
    "C16": {
        "corr": ["Corr/C10.vo"],
        "harness": [{"pkg": APP, "test": "TestVerifC16"}],
        "trusted": ["fake MySQL/DCS (verifkit); K1 table of the real findBestStreamFrom over generated topologies (exhaustive over 103,680 small configurations in the thorough tier)"],
        "assumptions": ["the manager's view (cluster state, cascade topology) is the input; 'healthy' = reachable, not offline, and master or replicating with lag below stream_from_reasonable_lag"],
        "theorem_status": {"all": "full: termination on every topology (fuel-independence), never self, configured-if-healthy, master-if-unconfigured, purity; the cascade repair footprint for every response. 'never counted towards quorum' is C04/C12's calc_active_nodes filter (cascade replicas are excluded from the HA host set) and is checked here by the monitor"},
    },
}
