"""Per-property configuration of ./check."""
APP = "./internal/app"
MYSQL = "./internal/mysql"
GTIDS = "./internal/mysql/gtids"
DCS = "./internal/dcs"
OPT = "./internal/app/optimization"

PROPS = {
    "C12": {
        "translator": True,
        "corr": ["Corr/C12.vo"],
        "harness": [{"pkg": MYSQL, "test": "TestVerifC12"}],
        "trusted": ["tools/gotrans (Go AST -> Gallina translator, ~300 lines) and Go's parser; Go int modelled as unbounded Z (64-bit overflow not modelled: list lengths are far below 2^62), '/' as Z.quot"],
        "assumptions": ["n = len(activeNodes) >= 0 and configured count w >= 0 (Go ints; w < 0 is not a meaningful configuration)"],
        "theorem_status": {"all": "full: proved for all n, w about the definitions regenerated from the source on this run"},
    },
    "C13": {
        "corr": ["Corr/C13.vo"],
        "harness": [{"pkg": APP, "test": "TestVerifC13"}],
        "trusted": ["go-mysql's sort.Search in IntervalSlice.Contain is modelled as first-match over the normalized slice, Normalize() as insertion into a normalized list (same input/output relation); uuids and tags are numbered by the harness; GTID string rendering/parsing is exercised but not modelled character by character"],
        "assumptions": ["sets are what ParseGTIDSet produces (wf: distinct uuids, >=1 tag per uuid, non-empty normalized slices) - checked per case by wfb in the correspondence"],
        "theorem_status": {"all": "full: proved for all well-formed GTID sets / all non-empty position lists"},
    },
}
