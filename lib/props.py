"""Per-property configuration of ./check."""
APP = "./internal/app"
MYSQL = "./internal/mysql"
GTIDS = "./internal/mysql/gtids"
DCS = "./internal/dcs"
OPT = "./internal/app/optimization"

PROPS = {
    "C12": {
        "translator": True,
        "corr": ["Corr/C12.vo"],
        "harness": [{"pkg": MYSQL, "test": "TestVerifC12"}],
        "trusted": ["tools/gotrans (Go AST -> Gallina translator, ~300 lines) and Go's parser; Go int modelled as unbounded Z (64-bit overflow not modelled: list lengths are far below 2^62), '/' as Z.quot"],
        "assumptions": ["n = len(activeNodes) >= 0 and configured count w >= 0 (Go ints; w < 0 is not a meaningful configuration)"],
        "theorem_status": {"all": "full: proved for all n, w about the definitions regenerated from the source on this run"},
    },
}
